#!/bin/sh
# Nothing to compile: verify the tools the checks need are present (offline).
set -e
test -r /opt/veriftools/tla/tla2tools.jar && command -v java >/dev/null || { echo "TLC not available"; exit 1; }
PYTHONPATH=/repo /venv/bin/python -c "import selfies, sys; assert selfies.__file__.startswith('/repo'), selfies.__file__"
mkdir -p /verif/evidence
echo "setup ok"
