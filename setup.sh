#!/bin/sh
# Nothing to compile: verify the tools the checks need are present (offline).
set -e
java -cp /opt/veriftools/tla/tla2tools.jar tlc2.TLC -h >/dev/null 2>&1 || { echo "TLC not runnable"; exit 1; }
PYTHONPATH=/repo /venv/bin/python -c "import selfies, sys; assert selfies.__file__.startswith('/repo'), selfies.__file__"
mkdir -p /verif/evidence
echo "setup ok"
