---------------------------- MODULE Text ----------------------------
(* Character-level helpers over TLA+ strings.  TLC implements Len, \o and  *)
(* SubSeq on strings, so Ch(s, i) is character access.  Everything here is *)
(* exact for ASCII; non-ASCII characters are only ever *classified* (see   *)
(* NonAsciiDigitLike) and never interpreted.                               *)
EXTENDS Integers, Sequences, FiniteSets, TLC

Ch(s, i)       == SubSeq(s, i, i)
Slice(s, i, j) == SubSeq(s, i, j)          \* 1-based, inclusive; "" when j < i
From(s, i)     == SubSeq(s, i, Len(s))

Min(a, b) == IF a < b THEN a ELSE b
Max(a, b) == IF a > b THEN a ELSE b

Digits == {"0", "1", "2", "3", "4", "5", "6", "7", "8", "9"}
Upper  == {"A","B","C","D","E","F","G","H","I","J","K","L","M",
           "N","O","P","Q","R","S","T","U","V","W","X","Y","Z"}
Lower  == {"a","b","c","d","e","f","g","h","i","j","k","l","m",
           "n","o","p","q","r","s","t","u","v","w","x","y","z"}

UpperSeq == <<"A","B","C","D","E","F","G","H","I","J","K","L","M",
              "N","O","P","Q","R","S","T","U","V","W","X","Y","Z">>
LowerSeq == <<"a","b","c","d","e","f","g","h","i","j","k","l","m",
              "n","o","p","q","r","s","t","u","v","w","x","y","z">>
UpperOf(c) == IF c \in Lower THEN UpperSeq[CHOOSE i \in 1..26 : LowerSeq[i] = c] ELSE c

IsDigit(c) == c \in Digits
IsUpper(c) == c \in Upper
IsLower(c) == c \in Lower
IsAlpha(c) == c \in Upper \cup Lower

DigitVal(c) ==
  CASE c = "0" -> 0 [] c = "1" -> 1 [] c = "2" -> 2 [] c = "3" -> 3 [] c = "4" -> 4
    [] c = "5" -> 5 [] c = "6" -> 6 [] c = "7" -> 7 [] c = "8" -> 8 [] c = "9" -> 9

(* Value of an ASCII digit string; only used on strings of at most 9 digits *)
RECURSIVE NatOf(_)
NatOf(s) == IF s = "" THEN 0
            ELSE NatOf(Slice(s, 1, Len(s) - 1)) * 10 + DigitVal(Ch(s, Len(s)))

(* Canonical spelling of a digit string: what str(int(s)) gives in Python, *)
(* kept as text so that arbitrarily long isotopes never become integers.  *)
RECURSIVE StripZeros(_)
StripZeros(s) == IF Len(s) > 1 /\ Ch(s, 1) = "0" THEN StripZeros(From(s, 2)) ELSE s

AllIn(s, S) == \A i \in 1..Len(s) : Ch(s, i) \in S

(* length of the longest prefix of From(s, i) whose characters are in S *)
RECURSIVE SpanFrom(_, _, _)
SpanFrom(s, i, S) == IF i <= Len(s) /\ Ch(s, i) \in S THEN 1 + SpanFrom(s, i + 1, S) ELSE 0

(* first index >= i holding character c, 0 if none *)
RECURSIVE Find(_, _, _)
Find(s, c, i) == IF i > Len(s) THEN 0 ELSE IF Ch(s, i) = c THEN i ELSE Find(s, c, i + 1)

Count(s, c) == Cardinality({i \in 1..Len(s) : Ch(s, i) = c})

RECURSIVE Concat(_)
Concat(sq) == IF sq = <<>> THEN "" ELSE Head(sq) \o Concat(Tail(sq))

RECURSIVE Repeat(_, _)
Repeat(s, n) == IF n <= 0 THEN "" ELSE s \o Repeat(s, n - 1)

(* sequence of the elements of a finite set of integers in ascending order *)
RECURSIVE SortedSeq(_)
SortedSeq(S) == IF S = {} THEN <<>>
                ELSE LET m == CHOOSE x \in S : \A y \in S : x <= y
                     IN <<m>> \o SortedSeq(S \ {m})

RECURSIVE SumUpTo(_, _)
SumUpTo(sq, n) == IF n = 0 THEN 0 ELSE sq[n] + SumUpTo(sq, n - 1)
SumSeq(sq) == SumUpTo(sq, Len(sq))
=====================================================================
