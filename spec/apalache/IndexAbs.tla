------------------------------ MODULE IndexAbs ------------------------------
(* The index code of C16 for ALL naturals: the encoder writes the base-16      *)
(* digits of n (least significant first, then reversed), the decoder sums       *)
(* digit * 16^position.  One step of the machine produces one digit; the        *)
(* decoder's running value of the digits produced so far is kept beside it.     *)
(*   n0   the number being written            rem  what is left of it           *)
(*   val  value the decoder assigns to the digits written so far                *)
(*   w    weight of the next digit (16^k)      k    digits written              *)
(* IndInv ( n0 = rem * w + val,  0 <= val < w,  w >= 1 ) is inductive over the  *)
(* unbounded integers (Apalache / z3); at rem = 0 it gives val = n0: decoding   *)
(* what was encoded returns the number, whatever its size.  Padding with zero   *)
(* digits on the left (Pad) does not change the value.  The negative            *)
(* configuration (weight not advanced for a zero digit - the slip of seeded     *)
(* change C16_r3A) is refuted.                                                  *)
EXTENDS Integers

VARIABLES
  \* @type: Int;
  n0,
  \* @type: Int;
  rem,
  \* @type: Int;
  val,
  \* @type: Int;
  w,
  \* @type: Bool;
  done

Base == 16

Init == /\ n0 \in Nat /\ rem = n0 /\ val = 0 /\ w = 1 /\ done = FALSE

IndInv == /\ n0 >= 0 /\ rem >= 0 /\ w >= 1 /\ val >= 0 /\ val < w
          /\ n0 = rem * w + val
          /\ (done => rem = 0)

IndInit == /\ n0 \in Int /\ rem \in Int /\ val \in Int /\ w \in Int /\ done \in BOOLEAN /\ IndInv

(* one digit: n % 16 is appended, n //= 16 *)
Digit == /\ ~done /\ rem > 0
         /\ LET d == rem % Base IN
              /\ val' = val + d * w
              /\ w' = Base * w
              /\ rem' = rem \div Base
         /\ UNCHANGED <<n0, done>>
Finish == /\ ~done /\ rem = 0 /\ done' = TRUE /\ UNCHANGED <<n0, rem, val, w>>
(* a zero digit in front: one more position, nothing added *)
Pad == /\ done /\ w' = Base * w /\ UNCHANGED <<n0, rem, val, done>>

Next == Digit \/ Finish \/ Pad

(* C16: the decoder's value of the finished code is the number *)
RoundTrip == done => val = n0
=============================================================================
