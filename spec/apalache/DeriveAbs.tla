----------------------------- MODULE DeriveAbs -----------------------------
(* Sequence-free abstraction of the derivation (module Decoder, phase          *)
(* "derive"): what matters for valence safety is, per frame, its derivation     *)
(* state and the atom it would bond to next (prev), and per such atom its       *)
(* capacity and the bond orders already spent.  Atoms that no live frame        *)
(* refers to can no longer receive chain bonds (ring bonds are clipped to the   *)
(* free valence when they are formed), so their slots are recycled: the         *)
(* abstraction is independent of the length of the input.                       *)
(*                                                                              *)
(* IndInv (StateBound: for every atom, bonds spent + the states of all frames   *)
(* hanging on it <= capacity) is shown INDUCTIVE with Apalache:                 *)
(*   apalache-mc check --init=IndInit --inv=IndInv --length=1 DeriveAbs.tla     *)
(* i.e. for an arbitrary number of symbols, with at most NF simultaneously      *)
(* live frames and capacities / orders up to MaxCap.  Valence follows.          *)
EXTENDS Integers

NF == 3                 \* simultaneously live frames
NA == 4                 \* atom slots (NF + 1: a free slot always exists)
MaxCap == 8
Frames == 1..NF
Atoms == 1..NA

VARIABLES
  \* @type: Int -> Int;
  acap,
  \* @type: Int -> Int;
  abonds,
  \* @type: Int -> Bool;
  live,
  \* @type: Int -> Int;
  fstate,
  \* @type: Int -> Int;
  fprev

Min2(a, b) == IF a < b THEN a ELSE b

(* states of the live frames hanging on atom a (unrolled for NF = 3) *)
Hang(a) == (IF live[1] /\ fprev[1] = a THEN fstate[1] ELSE 0)
         + (IF live[2] /\ fprev[2] = a THEN fstate[2] ELSE 0)
         + (IF live[3] /\ fprev[3] = a THEN fstate[3] ELSE 0)

TypeOK == /\ acap \in [Atoms -> 0..MaxCap] /\ abonds \in [Atoms -> 0..(3 * MaxCap)]
          /\ live \in [Frames -> BOOLEAN] /\ fstate \in [Frames -> 0..MaxCap]
          /\ fprev \in [Frames -> Atoms]

StateBound == \A a \in Atoms : abonds[a] + Hang(a) <= acap[a]
Valence == \A a \in Atoms : abonds[a] <= acap[a]
LiveHaveState == \A f \in Frames : live[f] => fstate[f] >= 1

IndInv == TypeOK /\ StateBound /\ LiveHaveState
IndInit == IndInv

Init == /\ acap = [a \in Atoms |-> 0] /\ abonds = [a \in Atoms |-> 0]
        /\ live = [f \in Frames |-> FALSE] /\ fstate = [f \in Frames |-> 0] /\ fprev = [f \in Frames |-> 1]

Unused(a, f) == \A g \in Frames : (g # f /\ live[g]) => fprev[g] # a

(* a fragment starts: state 0 reads an atom symbol of capacity c: root atom, no bond *)
NewRoot(f, c, a) ==
  /\ ~live[f] /\ c >= 1 /\ Unused(a, f)
  /\ acap' = [acap EXCEPT ![a] = c] /\ abonds' = [abonds EXCEPT ![a] = 0]
  /\ live' = [live EXCEPT ![f] = TRUE] /\ fstate' = [fstate EXCEPT ![f] = c] /\ fprev' = [fprev EXCEPT ![f] = a]

(* atom symbol of bond order o and capacity c read in state s > 0 *)
AtomStep(f, o, c, a) ==
  /\ live[f] /\ a # fprev[f] /\ Unused(a, f)
  /\ LET s == fstate[f]  p == fprev[f]  bo == Min2(Min2(o, s), c)
     IN IF bo = 0
        THEN /\ live' = [live EXCEPT ![f] = FALSE] /\ UNCHANGED <<acap, abonds, fstate, fprev>>     \* atom dropped, frame ends
        ELSE /\ acap' = [acap EXCEPT ![a] = c]
             /\ abonds' = [abonds EXCEPT ![p] = @ + bo, ![a] = bo]
             /\ fprev' = [fprev EXCEPT ![f] = a]
             /\ fstate' = [fstate EXCEPT ![f] = c - bo]
             /\ live' = [live EXCEPT ![f] = (c - bo >= 1)]

(* branch symbol of order o in state s >= 2 opens frame g on the same atom *)
Branch(f, g, o) ==
  /\ live[f] /\ ~live[g] /\ f # g /\ fstate[f] >= 2
  /\ LET b == Min2(fstate[f] - 1, o)
     IN /\ fstate' = [fstate EXCEPT ![f] = @ - b, ![g] = b]
        /\ live' = [live EXCEPT ![g] = TRUE]
        /\ fprev' = [fprev EXCEPT ![g] = fprev[f]]
  /\ UNCHANGED <<acap, abonds>>

(* ring symbol of order o: consumes min(o, s) of the state (the bond itself is made later, clipped) *)
Ring(f, o) ==
  /\ live[f]
  /\ LET ro == Min2(o, fstate[f])
     IN /\ fstate' = [fstate EXCEPT ![f] = @ - ro]
        /\ live' = [live EXCEPT ![f] = (fstate[f] - ro >= 1)]
  /\ UNCHANGED <<acap, abonds, fprev>>

(* [epsilon], end of input, exhausted branch budget *)
Pop(f) == /\ live[f] /\ live' = [live EXCEPT ![f] = FALSE] /\ UNCHANGED <<acap, abonds, fstate, fprev>>

(* second pass: a ring bond of requested order o between atoms a and b, clipped to both free valences *)
FormRing(a, b, o) ==
  /\ a # b /\ \A f \in Frames : ~live[f]
  /\ LET r == Min2(Min2(o, acap[a] - abonds[a]), acap[b] - abonds[b])
     IN /\ r >= 1
        /\ abonds' = [abonds EXCEPT ![a] = @ + r, ![b] = @ + r]
  /\ UNCHANGED <<acap, live, fstate, fprev>>

Next == \/ \E f \in Frames, c \in 1..MaxCap, a \in Atoms : NewRoot(f, c, a)
        \/ \E f \in Frames, o \in 1..3, c \in 0..MaxCap, a \in Atoms : AtomStep(f, o, c, a)
        \/ \E f \in Frames, g \in Frames, o \in 1..3 : Branch(f, g, o)
        \/ \E f \in Frames, o \in 1..3 : Ring(f, o)
        \/ \E f \in Frames : Pop(f)
        \/ \E a \in Atoms, b \in Atoms, o \in 1..3 : FormRing(a, b, o)
=============================================================================
