------------------------------- MODULE ApiAbs -------------------------------
(* Sequence-free abstraction of the configuration protocol of module          *)
(* SelfiesAPI (C11 / C12), for an argument over histories of ANY length.      *)
(*                                                                            *)
(* What matters for "a translation sees the table in force" is: the live      *)
(* table, the memoised capacities, the table the memoised alphabet was        *)
(* computed from, the preset tables, and for every object the caller holds    *)
(* whether it IS (same identity as) one of the library's objects.  Tables are *)
(* total functions over a finite key set (the default entry '?' is one of the *)
(* keys); the translation machines are abstracted to "reads the capacities of *)
(* some keys through the memo".  The history, the heap order and the content  *)
(* of results are gone: the abstraction has no bound on the number of calls.  *)
(*                                                                            *)
(* IndInv (memo coherent with the live table, memoised alphabet computed from *)
(* the live table, no caller object aliases a library object, presets as      *)
(* initially) is shown INDUCTIVE with Apalache:                               *)
(*    apalache-mc check --init=Init    --inv=IndInv --length=0 ApiAbs.tla     *)
(*    apalache-mc check --init=IndInit --inv=IndInv --length=1 ApiAbs.tla     *)
(* and ResultFresh (what a translation reads is the live table's value) is an *)
(* action invariant of every step from an IndInv state.  The two negative     *)
(* configurations (no invalidation in Set; the preset getter returns the      *)
(* library's own object) are obtained by text substitution in the harness and *)
(* must be refuted.                                                           *)
EXTENDS Integers

NK == 3                 \* keys (atom types incl. the default entry)
NO == 3                 \* objects the caller holds at a time (slots are reused)
NP == 2                 \* presets
MaxCap == 4
Keys == 1..NK
Objs == 1..NO
Pres == 1..NP
Caps == 0..MaxCap

VARIABLES
  \* @type: Int -> Int;
  cur,
  \* @type: Int -> Int;
  capc,
  \* @type: Bool;
  alphaValid,
  \* @type: Int -> Int;
  alphaTab,
  \* @type: Int -> (Int -> Int);
  pre,
  \* @type: Int -> (Int -> Int);
  pre0,
  \* @type: Int -> (Int -> Int);
  objtab,
  \* @type: Int -> Bool;
  objvalid,
  \* @type: Int -> Int;
  alias,
  \* @type: Int -> Int;
  lastread,
  \* @type: Set(Int);
  lastkeys

(* alias[o]: 0 = the caller's own object; 1 = IS the live table; 2 = IS the memoised alphabet;  *)
(* 10 + p = IS preset p                                                                           *)
Own == 0
NotMemo == 0 - 1

TypeOK ==
  /\ cur \in [Keys -> Caps] /\ capc \in [Keys -> (Caps \cup {NotMemo})]
  /\ alphaValid \in BOOLEAN /\ alphaTab \in [Keys -> Caps]
  /\ pre \in [Pres -> [Keys -> Caps]] /\ pre0 \in [Pres -> [Keys -> Caps]]
  /\ objtab \in [Objs -> [Keys -> (Caps \cup {NotMemo})]] /\ objvalid \in [Objs -> BOOLEAN]
  /\ alias \in [Objs -> {0, 1, 2, 11, 12}]
  /\ lastread \in [Keys -> (Caps \cup {NotMemo})] /\ lastkeys \in SUBSET Keys

CachesCoherent ==
  /\ \A k \in Keys : capc[k] # NotMemo => capc[k] = cur[k]
  /\ alphaValid => alphaTab = cur
NoAliasing == \A o \in Objs : alias[o] = Own
PresetsImmutable == pre = pre0
(* a table the library accepted is valid: every capacity is a natural number *)
CurValid == \A k \in Keys : cur[k] \in Caps

IndInv == TypeOK /\ CachesCoherent /\ NoAliasing /\ PresetsImmutable /\ CurValid

Init ==
  /\ pre \in [Pres -> [Keys -> Caps]] /\ pre0 = pre
  /\ cur = pre[1]
  /\ capc = [k \in Keys |-> NotMemo] /\ alphaValid = FALSE /\ alphaTab = pre[1]
  /\ objtab = [o \in Objs |-> [k \in Keys |-> 0]] /\ objvalid = [o \in Objs |-> TRUE]
  /\ alias = [o \in Objs |-> Own]
  /\ lastread = [k \in Keys |-> NotMemo] /\ lastkeys = {}

(* any state satisfying the invariant: the induction hypothesis *)
IndInit ==
  /\ cur \in [Keys -> Caps] /\ capc \in [Keys -> (Caps \cup {NotMemo})]
  /\ alphaValid \in BOOLEAN /\ alphaTab \in [Keys -> Caps]
  /\ pre \in [Pres -> [Keys -> Caps]] /\ pre0 \in [Pres -> [Keys -> Caps]]
  /\ objtab \in [Objs -> [Keys -> (Caps \cup {NotMemo})]] /\ objvalid \in [Objs -> BOOLEAN]
  /\ alias \in [Objs -> {0, 1, 2, 11, 12}]
  /\ lastread \in [Keys -> (Caps \cup {NotMemo})] /\ lastkeys \in SUBSET Keys
  /\ IndInv

NoRead == lastread' = [k \in Keys |-> NotMemo] /\ lastkeys' = {}
Invalidate == capc' = [k \in Keys |-> NotMemo] /\ alphaValid' = FALSE /\ UNCHANGED alphaTab

(* set_semantic_constraints(name) *)
SetPreset(p) ==
  /\ cur' = pre[p]                                  \* a copy: the library's own dict
  /\ Invalidate
  /\ UNCHANGED <<pre, pre0, objtab, objvalid, alias>> /\ NoRead

(* set_semantic_constraints(d): validated, copied, memo layers dropped; rejected: nothing changes *)
ObjIsTable(o) == \A k \in Keys : objtab[o][k] \in Caps
SetCustom(o) ==
  /\ IF objvalid[o] /\ ObjIsTable(o)
     THEN /\ cur' = objtab[o] /\ Invalidate
     ELSE UNCHANGED <<cur, capc, alphaValid, alphaTab>>
  /\ UNCHANGED <<pre, pre0, objtab, objvalid, alias>> /\ NoRead

(* get_semantic_constraints() / get_preset_constraints(name): fresh copies *)
GetConstraints(o) ==
  /\ objtab' = [objtab EXCEPT ![o] = cur] /\ objvalid' = [objvalid EXCEPT ![o] = TRUE]
  /\ alias' = [alias EXCEPT ![o] = Own]
  /\ UNCHANGED <<cur, capc, alphaValid, alphaTab, pre, pre0>> /\ NoRead
GetPreset(o, p) ==
  /\ objtab' = [objtab EXCEPT ![o] = pre[p]] /\ objvalid' = [objvalid EXCEPT ![o] = TRUE]
  /\ alias' = [alias EXCEPT ![o] = Own]
  /\ UNCHANGED <<cur, capc, alphaValid, alphaTab, pre, pre0>> /\ NoRead

(* get_semantic_robust_alphabet(): computed from the live table on a miss, a copy is handed out *)
GetAlphabet(o) ==
  /\ IF alphaValid THEN UNCHANGED <<alphaValid, alphaTab>> ELSE alphaValid' = TRUE /\ alphaTab' = cur
  /\ objtab' = [objtab EXCEPT ![o] = IF alphaValid THEN alphaTab ELSE cur]
  /\ objvalid' = [objvalid EXCEPT ![o] = FALSE]
  /\ alias' = [alias EXCEPT ![o] = Own]
  /\ UNCHANGED <<cur, capc, pre, pre0>> /\ NoRead

(* the caller edits an object it holds - arbitrarily; an aliased object drags the library's along *)
CallerMutates(o) ==
  \E t \in [Keys -> (Caps \cup {NotMemo})], v \in BOOLEAN :
    /\ objtab' = [objtab EXCEPT ![o] = t] /\ objvalid' = [objvalid EXCEPT ![o] = v]
    /\ cur' = IF alias[o] = 1 THEN t ELSE cur
    /\ alphaTab' = IF alias[o] = 2 THEN t ELSE alphaTab
    /\ pre' = IF alias[o] = 11 THEN [pre EXCEPT ![1] = t] ELSE IF alias[o] = 12 THEN [pre EXCEPT ![2] = t] ELSE pre
    /\ UNCHANGED <<capc, alphaValid, pre0, alias>> /\ NoRead

(* a translation: reads the capacities of a set of keys through the memo and fills the memo *)
Translate ==
  \E ks \in SUBSET Keys :
    /\ lastkeys' = ks
    /\ lastread' = [k \in Keys |-> IF k \in ks THEN (IF capc[k] # NotMemo THEN capc[k] ELSE cur[k]) ELSE NotMemo]
    /\ capc' = [k \in Keys |-> IF k \in ks /\ capc[k] = NotMemo THEN cur[k] ELSE capc[k]]
    /\ UNCHANGED <<cur, alphaValid, alphaTab, pre, pre0, objtab, objvalid, alias>>

Next ==
  \/ \E p \in Pres : SetPreset(p)
  \/ \E o \in Objs : SetCustom(o) \/ GetConstraints(o) \/ GetAlphabet(o) \/ CallerMutates(o)
  \/ \E o \in Objs, p \in Pres : GetPreset(o, p)
  \/ Translate

(* C11: what the last translation read is what the table in force says (state invariant over the   *)
(* observation variables; inductive together with IndInv)                                           *)
ResultFresh == \A k \in Keys : k \in lastkeys => lastread[k] = cur[k]
IndInvR == IndInv /\ ResultFresh
IndInitR == IndInit /\ ResultFresh
=============================================================================
