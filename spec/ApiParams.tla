---------------------------- MODULE ApiParams ----------------------------
(* Default parameters of SelfiesAPI (the harness shadows this module). *)
EXTENDS Integers, Sequences, TLC
Presets == {"default", "octet_rule"}
Customs == << ("C" :> 2) @@ ("N+1" :> 1) @@ ("?" :> 3),      \* valid
              ("C" :> 4),                                    \* missing "?"
              ("C" :> -1) @@ ("?" :> 8) >>                   \* negative capacity
DProbes == << <<"[C]", "[=C]", "[#C]", "[N+1]", "[Fe]">> >>
EProbes == << <<"C", "=C", "#C">> >>
MaxHist == 3
MaxHeap == 10
AliasAlphabet == FALSE
ClearOnSet == TRUE
CopyOnSet == TRUE
=====================================================================
