---------------------------- MODULE Decoder ----------------------------
(* The SELFIES decoder as a pushdown machine:                               *)
(*   token stream -> Derive (derivation states, branch frames, index       *)
(*   symbols, ring queue) -> RingPass (second pass, bilocal ring formation) *)
(*   -> SmilesWriter (explicit-stack printing with ring labels).            *)
(* Written from docs/source/derivation.rst + CHANGELOG v2 + the pinned      *)
(* examples of tests/test_specific_cases.py; one action per step the        *)
(* implementation takes, so behaviours can be laid side by side.            *)
(*                                                                          *)
(* The machine state is ONE record `d`; every action is  Kind(d) = name /\  *)
(* d' = Do<name>(d)  where Kind is the (deterministic) dispatcher.  The     *)
(* same operators therefore serve as actions (model checking, generation,   *)
(* trace validation) and, folded by Run, as the function DecodeFn used by   *)
(* the round-trip, [nop] and API modules.  The only nondeterminism is the   *)
(* choice of the input (Supply / Close) in generation mode.                 *)
EXTENDS Constraints, DecParams
(* DecParams supplies, as plain definitions (TLC evaluates a constant        *)
(* definition once, whereas a CONSTANT substituted in a .cfg is re-evaluated *)
(* at every use - measured: 70x slower):                                     *)
(*   Table     constraint table in force (function key -> capacity)          *)
(*   Compat    BOOLEAN, the compatible=True flag                             *)
(*   MaxLabel  largest legal ring-closure label (99; scaled down in one run) *)
(*   KnownSyms symbols whose classification is precomputed (only a cache)    *)
(* The harness writes a DecParams.tla next to each model; spec/DecParams.tla *)
(* holds the defaults.                                                       *)

INF == 1000000000

(***************************************************************************)
(* Symbol information.  SymOf applies the compatibility mapping; Info is   *)
(* the classified symbol with the atom's capacity under Table resolved.    *)
(***************************************************************************)
SymOfC(c, tok) == IF c THEN Modernize(tok) ELSE tok
(* classification is character-level and therefore costly; symbols named in *)
(* KnownSyms are classified once (TLC evaluates constant definitions once). *)
(* It does not depend on the constraint table; the atom's capacity is looked *)
(* up under the table of the call (d.table) when the symbol is read.         *)
InfoTable == [s \in KnownSyms |-> Classify(s)]
InfoSym(sym) == IF sym \in KnownSyms THEN InfoTable[sym] ELSE Classify(sym)
WithCap(t, c) ==
  IF c.k = "atom"
  THEN LET cap == AtomCapacity(t, c.atom)
       IN IF cap < 0 THEN [k |-> "bad"]
          ELSE [k |-> "atom", order |-> c.order, st |-> c.st, atom |-> c.atom, cap |-> cap]
  ELSE c
InfoC(t, c, tok) == WithCap(t, InfoSym(SymOfC(c, tok)))

(***************************************************************************)
(* State                                                                   *)
(***************************************************************************)
RootFrame == [state |-> 0, prev |-> 0, end |-> INF, attr |-> <<>>]

InitStateT(inp, closed, compat, table) ==
  [ inp    |-> inp,        \* tokens: bracketed symbols, "[nop]", "."
    compat |-> compat,     \* the compatible=True flag of this call
    table  |-> table,      \* the constraint table in force during this call
    closed |-> closed,     \* no more tokens will be supplied
    rp     |-> 0,          \* tokens consumed (including "." and [nop])
    pos    |-> 0,          \* symbols counted in the current fragment (incl. phantom index symbols)
    nsym   |-> 0,          \* real symbols (no [nop], no ".") consumed before the current fragment
    fpos   |-> 0,          \* real symbols consumed in the current fragment
    stack  |-> <<RootFrame>>,
    pc     |-> "derive",
    need   |-> 0, acc |-> 0, pend |-> [k |-> "none"],
    atoms  |-> <<>>,       \* [atom, cap, root, attr]
    bonds  |-> <<>>,       \* [src, dst, order, ring, ls, rs]
    adj    |-> <<>>,       \* per atom: its out-bonds (indices into bonds) in written order:
                           \*   ring bonds first (order of formation), then chain bonds
    rm     |-> <<>>,       \* per atom: ring bonds made so far
    bc     |-> <<>>,       \* per atom: running bond-order sum (BcMeaning: = BondSum, the definition)
    rings  |-> <<>>,       \* queued ring requests [l, r, order, ls, rs]
    ri     |-> 1,
    fuzzy  |-> FALSE,      \* an [..eps..] look-alike was read: outcome is in the permissive region
    \* writer
    wst    |-> <<>>, out |-> "", rooti |-> 0,
    lab    |-> <<>>,       \* per bond index: 0 = unseen, n > 0 = open with label n, -1 = closed
    nopen  |-> 0,          \* rings opened so far
    otok   |-> <<>>,       \* per written atom token: [atom, end, tok]
    labels |-> <<>> ]      \* every label written, in order: [bond, lab]
InitStateC(inp, closed, compat) == InitStateT(inp, closed, compat, Table)
InitState(inp, closed) == InitStateC(inp, closed, Compat)
SymOf(d, tok) == SymOfC(d.compat, tok)
Info(d, tok)  == InfoC(d.table, d.compat, tok)

Top(d) == d.stack[Len(d.stack)]
SetTop(d, f) == [d.stack EXCEPT ![Len(d.stack)] = f]

(* input helpers *)
Waiting(d) == d.rp = Len(d.inp) /\ ~d.closed
HasTok(d)  == d.rp < Len(d.inp) /\ d.inp[d.rp + 1] # "."
FragEnd(d) == (d.rp = Len(d.inp) /\ d.closed) \/ (d.rp < Len(d.inp) /\ d.inp[d.rp + 1] = ".")
Tok(d)     == d.inp[d.rp + 1]
AtDot(d)   == d.rp < Len(d.inp) /\ d.inp[d.rp + 1] = "."

FrameActive(d) == Top(d).state # -1 /\ d.pos < Top(d).end

(* bond bookkeeping: the running counter of the implementation is DEFINED  *)
(* here as the sum over incident bonds                                      *)
BondSum(d, i) ==
  SumSeq([j \in 1..Len(d.bonds) |->
            IF d.bonds[j].src = i \/ d.bonds[j].dst = i THEN d.bonds[j].order ELSE 0])
HasBond(d, a, b) == \E j \in 1..Len(d.bonds) : {d.bonds[j].src, d.bonds[j].dst} = {a, b}
BondIdx(d, a, b) == CHOOSE j \in 1..Len(d.bonds) : {d.bonds[j].src, d.bonds[j].dst} = {a, b}

(***************************************************************************)
(* Dispatcher                                                              *)
(***************************************************************************)
Kind(d) ==
  CASE d.pc = "derive" ->
         IF FrameActive(d)
         THEN IF Waiting(d) THEN "wait"
              ELSE IF FragEnd(d) THEN "Pop"
              ELSE IF Tok(d) = "[nop]" THEN "Nop"
              ELSE LET k == Info(d, Tok(d)).k
                   IN CASE k = "atom" -> "ReadAtom" [] k = "branch" -> "ReadBranch"
                        [] k = "ring" -> "ReadRing" [] k = "eps" -> "ReadEps"
                        [] k = "fuzzy" -> "ReadFuzzy" [] OTHER -> "ReadInvalid"
         ELSE IF d.pos < Top(d).end
              THEN IF Waiting(d) THEN "wait"
                   ELSE IF FragEnd(d) THEN "Pop"
                   ELSE IF Tok(d) = "[nop]" THEN "Nop" ELSE "SkipTok"
              ELSE "Pop"
    [] d.pc = "index" ->
         IF d.need = 0 THEN "IndexDone"
         ELSE IF Waiting(d) THEN "wait"
         ELSE IF FragEnd(d) THEN "PhantomIndex"
         ELSE IF Tok(d) = "[nop]" THEN "Nop" ELSE "ReadIndex"
    [] d.pc = "rings" -> IF d.ri <= Len(d.rings) THEN "FormRing" ELSE "RingsDone"
    [] d.pc = "write" -> IF d.wst = <<>> THEN "WNextRoot" ELSE "WStep"
    [] OTHER -> d.pc        \* "done", "error"

(***************************************************************************)
(* Derive                                                                  *)
(***************************************************************************)
Consume(d) == [d EXCEPT !.rp = @ + 1, !.pos = @ + 1, !.fpos = @ + 1]
SymIndex(d) == d.nsym + d.fpos           \* global position of the symbol being read

DoNop(d) == [d EXCEPT !.rp = @ + 1]

DoReadAtom(d) ==
  LET s    == Info(d, Tok(d))
      st   == Top(d).state
      bo   == IF st = 0 THEN 0 ELSE Min(Min(s.order, st), s.cap)
      left == s.cap - bo
      ns   == IF left = 0 THEN -1 ELSE left
      n    == Len(d.atoms) + 1
      at   == Top(d).attr \o <<[idx |-> SymIndex(d), sym |-> SymOf(d, Tok(d))]>>
      c    == Consume(d)
  IN IF bo = 0 /\ st # 0
     THEN [c EXCEPT !.stack = SetTop(d, [Top(d) EXCEPT !.state = ns])]       \* no room: atom dropped
     ELSE [c EXCEPT
            !.atoms = Append(@, [atom |-> s.atom, cap |-> s.cap, root |-> (st = 0), attr |-> at]),
            !.bonds = IF st = 0 THEN @
                      ELSE Append(@, [src |-> Top(d).prev, dst |-> n, order |-> bo, ring |-> FALSE,
                                      ls |-> s.st, rs |-> ""]),
            !.adj = IF st = 0 THEN Append(@, <<>>)
                    ELSE Append([@ EXCEPT ![Top(d).prev] = Append(@, Len(d.bonds) + 1)], <<>>),
            !.rm = Append(@, 0),
            !.bc = IF st = 0 THEN Append(@, 0)
                   ELSE Append([@ EXCEPT ![Top(d).prev] = @ + bo], bo),
            !.stack = SetTop(d, [Top(d) EXCEPT !.state = ns, !.prev = n])]

DoReadBranch(d) ==
  LET s == Info(d, Tok(d))  c == Consume(d)
  IN IF Top(d).state <= 1 THEN c
     ELSE [c EXCEPT !.pc = "index", !.need = s.n, !.acc = 0,
                    !.pend = [k |-> "branch", order |-> s.order,
                              at |-> [idx |-> SymIndex(d), sym |-> SymOf(d, Tok(d))]]]

DoReadRing(d) ==
  LET s == Info(d, Tok(d))  c == Consume(d)
  IN IF Top(d).state = 0 THEN c
     ELSE [c EXCEPT !.pc = "index", !.need = s.n, !.acc = 0,
                    !.pend = [k |-> "ring", order |-> s.order, ls |-> s.ls, rs |-> s.rs]]

DoReadEps(d) ==
  [Consume(d) EXCEPT !.stack = SetTop(d, [Top(d) EXCEPT !.state = IF @ = 0 THEN 0 ELSE -1])]
DoReadFuzzy(d) == [DoReadEps(d) EXCEPT !.fuzzy = TRUE]

DoReadInvalid(d) == [Consume(d) EXCEPT !.pc = "error"]

DoReadIndex(d) ==
  [Consume(d) EXCEPT !.acc = 16 * @ + IndexCode(SymOf(d, Tok(d))), !.need = @ - 1]
DoPhantomIndex(d) ==       \* a missing symbol at the end of the fragment counts as digit 0
  [d EXCEPT !.pos = @ + 1, !.acc = 16 * @, !.need = @ - 1]

DoIndexDone(d) ==
  LET st == Top(d).state  p == d.pend
      base == [d EXCEPT !.pc = "derive", !.need = 0, !.acc = 0, !.pend = [k |-> "none"]]
  IN IF p.k = "branch"
     THEN LET bi == Min(st - 1, p.order)
          IN [base EXCEPT !.stack =
                Append(SetTop(d, [Top(d) EXCEPT !.state = st - bi]),
                       [state |-> bi, prev |-> Top(d).prev, end |-> d.pos + d.acc + 1,
                        attr |-> Top(d).attr \o <<p.at>>])]
     ELSE LET ro   == Min(p.order, st)
              left == st - ro
              l    == Max(1, Top(d).prev - (d.acc + 1))
          IN [base EXCEPT
                !.stack = SetTop(d, [Top(d) EXCEPT !.state = IF left = 0 THEN -1 ELSE left]),
                !.rings = Append(@, [l |-> l, r |-> Top(d).prev, order |-> ro, ls |-> p.ls, rs |-> p.rs])]

DoSkipTok(d) == Consume(d)

DoPop(d) ==
  IF Len(d.stack) > 1
  THEN [d EXCEPT !.stack = SubSeq(@, 1, Len(@) - 1)]
  ELSE IF AtDot(d)                      \* '.' starts a new fragment
       THEN [d EXCEPT !.rp = @ + 1, !.pos = 0, !.nsym = @ + d.fpos, !.fpos = 0,
                      !.stack = <<RootFrame>>]
       ELSE [d EXCEPT !.pc = "rings", !.stack = <<>>]

(***************************************************************************)
(* RingPass: requests in order of appearance; skip a ring onto itself or   *)
(* onto a full atom; minimal reduction of the order; a ring on top of an   *)
(* existing bond raises that bond's order (at most 3); new ring bonds go   *)
(* before the chain bonds of both atoms, in order of formation.            *)
(***************************************************************************)
DoFormRing(d) ==
  LET r  == d.rings[d.ri]
      lf == d.atoms[r.l].cap - d.bc[r.l]
      rf == d.atoms[r.r].cap - d.bc[r.r]
      o  == Min(Min(r.order, lf), rf)
      nx == [d EXCEPT !.ri = @ + 1]
  IN IF r.l = r.r \/ lf <= 0 \/ rf <= 0 THEN nx
     ELSE IF HasBond(d, r.l, r.r)
          THEN LET j == BondIdx(d, r.l, r.r)
                   inc == Min(o + d.bonds[j].order, 3) - d.bonds[j].order
               IN [nx EXCEPT !.bonds[j].order = @ + inc,
                             !.bc = [@ EXCEPT ![r.l] = @ + inc, ![r.r] = @ + inc]]
          ELSE LET j == Len(d.bonds) + 1
                   Ins(l, k) == SubSeq(l, 1, k) \o <<j>> \o SubSeq(l, k + 1, Len(l))
               IN [nx EXCEPT !.bonds = Append(@, [src |-> r.l, dst |-> r.r, order |-> o, ring |-> TRUE,
                                                  ls |-> r.ls, rs |-> r.rs]),
                             !.adj = [@ EXCEPT ![r.l] = Ins(@, d.rm[r.l]), ![r.r] = Ins(@, d.rm[r.r])],
                             !.rm = [@ EXCEPT ![r.l] = @ + 1, ![r.r] = @ + 1],
                             !.bc = [@ EXCEPT ![r.l] = @ + o, ![r.r] = @ + o]]
DoRingsDone(d) ==
  [d EXCEPT !.pc = "write", !.lab = [j \in 1..Len(d.bonds) |-> 0]]

(***************************************************************************)
(* SmilesWriter                                                            *)
(***************************************************************************)
(* written neighbour order of atom i: ring bonds (formation order), then chain bonds *)
Adj(d, i) == d.adj[i]
(* the same, DEFINED from the bond list (what adj means); AdjMeaning is an invariant *)
RECURSIVE AdjFrom(_, _, _, _)
AdjFrom(d, j, i, wantRing) ==
  IF j > Len(d.bonds) THEN <<>>
  ELSE (IF wantRing /\ d.bonds[j].ring /\ (d.bonds[j].src = i \/ d.bonds[j].dst = i) THEN <<j>>
        ELSE IF ~wantRing /\ ~d.bonds[j].ring /\ d.bonds[j].src = i THEN <<j>> ELSE <<>>)
       \o AdjFrom(d, j + 1, i, wantRing)
BcMeaning(d) == \A i \in 1..Len(d.atoms) : d.bc[i] = BondSum(d, i)

(* Linear-time equivalents used on long traces (their equivalence with the   *)
(* definitions above is an invariant of the small models: InvFastEquiv).     *)
RECURSIVE SumsFrom(_, _, _)
SumsFrom(d, j, f) ==
  IF j > Len(d.bonds) THEN f
  ELSE LET b == d.bonds[j]
       IN SumsFrom(d, j + 1, [f EXCEPT ![b.src] = @ + b.order, ![b.dst] = @ + b.order])
AllSums(d) == SumsFrom(d, 1, [i \in 1..Len(d.atoms) |-> 0])
BcFast(d) == d.bc = AllSums(d)
ValenceFast(d) == LET f == AllSums(d) IN \A i \in 1..Len(d.atoms) : f[i] <= d.atoms[i].cap
AdjFast(d) ==
  /\ Len(d.adj) = Len(d.atoms)
  /\ \A j \in 1..Len(d.bonds) :
        LET b == d.bonds[j]
        IN /\ \E k \in 1..Len(d.adj[b.src]) : d.adj[b.src][k] = j
           /\ (b.ring => \E k \in 1..Len(d.adj[b.dst]) : d.adj[b.dst][k] = j)
  /\ SumSeq([i \in 1..Len(d.adj) |-> Len(d.adj[i])])
        = Len(d.bonds) + Cardinality({j \in 1..Len(d.bonds) : d.bonds[j].ring})
  /\ \A i \in 1..Len(d.adj) : \A k \in 1..(Len(d.adj[i]) - 1) :
        LET x == d.bonds[d.adj[i][k]]  y == d.bonds[d.adj[i][k + 1]]
        IN /\ (x.ring \/ ~y.ring)                                   \* ring bonds first
           /\ (x.ring = y.ring => d.adj[i][k] < d.adj[i][k + 1])     \* each group in order of creation
  /\ \A i \in 1..Len(d.adj) : \A k \in 1..Len(d.adj[i]) :
        LET x == d.bonds[d.adj[i][k]] IN IF x.ring THEN i \in {x.src, x.dst} ELSE x.src = i
AdjMeaning(d) == \A i \in 1..Len(d.atoms) : d.adj[i] = AdjFrom(d, 1, i, TRUE) \o AdjFrom(d, 1, i, FALSE)
Roots(d) == SelectSeq([i \in 1..Len(d.atoms) |-> i], LAMBDA i : d.atoms[i].root)
Other(b, i) == IF b.src = i THEN b.dst ELSE b.src
BondChar(b, from) ==
  IF b.order = 2 THEN "=" ELSE IF b.order = 3 THEN "#"
  ELSE IF b.ring THEN (IF from = b.src THEN b.ls ELSE b.rs) ELSE b.ls
LabelText(n) == (IF n >= 10 THEN "%" ELSE "") \o ToString(n)

DoWNextRoot(d) ==
  LET R == Roots(d)
  IN IF d.rooti < Len(R)
     THEN LET a == R[d.rooti + 1]
          IN [d EXCEPT !.rooti = @ + 1,
                       !.wst = <<[a |-> a, bi |-> 0, tot |-> Len(Adj(d, a)), cl |-> FALSE]>>,
                       !.out = IF d.rooti = 0 THEN @ ELSE @ \o "."]
     ELSE [d EXCEPT !.pc = "done"]

FreeLabels(d) == (1..MaxLabel) \ {d.lab[j] : j \in {x \in 1..Len(d.lab) : d.lab[x] > 0}}

DoWStep(d) ==
  LET top == d.wst[Len(d.wst)]
      tk  == SpellSmilesAtom(d.atoms[top.a].atom)
      o1  == IF top.bi = 0 THEN d.out \o tk ELSE d.out
      d1  == IF top.bi = 0
             THEN [d EXCEPT !.otok = Append(@, [atom |-> top.a, end |-> Len(o1), tok |-> tk])]
             ELSE d
      adj == Adj(d, top.a)
  IN IF top.bi < top.tot
     THEN LET j  == adj[top.bi + 1]
              b  == d.bonds[j]
              w1 == [d.wst EXCEPT ![Len(d.wst)].bi = top.bi + 1]
          IN IF b.ring
             THEN LET closing == d.lab[j] > 0
                      n == IF closing THEN d.lab[j]
                           ELSE IF d.nopen < MaxLabel THEN d.nopen + 1
                           ELSE IF FreeLabels(d) # {}
                                THEN CHOOSE x \in FreeLabels(d) : \A y \in FreeLabels(d) : x <= y
                                ELSE d.nopen + 1         \* no legal label left
                  IN [d1 EXCEPT !.out = o1 \o BondChar(b, top.a) \o LabelText(n),
                                !.wst = w1,
                                !.lab[j] = IF closing THEN -1 ELSE n,
                                !.nopen = IF closing THEN @ ELSE @ + 1,
                                !.labels = Append(@, [bond |-> j, lab |-> n,
                                                      full |-> (~closing /\ d.nopen >= MaxLabel /\ FreeLabels(d) = {})])]
             ELSE LET br == top.bi < top.tot - 1
                  IN [d1 EXCEPT !.out = o1 \o (IF br THEN "(" ELSE "") \o BondChar(b, top.a),
                                !.wst = Append(w1, [a |-> b.dst, bi |-> 0,
                                                    tot |-> Len(Adj(d, b.dst)), cl |-> br])]
     ELSE [d1 EXCEPT !.wst = SubSeq(@, 1, Len(@) - 1),
                     !.out = IF top.cl THEN o1 \o ")" ELSE o1]

(***************************************************************************)
(* Step function and its fold                                              *)
(***************************************************************************)
Step(d) ==
  LET k == Kind(d)
  IN CASE k = "Nop" -> DoNop(d)           [] k = "ReadAtom" -> DoReadAtom(d)
       [] k = "ReadBranch" -> DoReadBranch(d) [] k = "ReadRing" -> DoReadRing(d)
       [] k = "ReadEps" -> DoReadEps(d)   [] k = "ReadFuzzy" -> DoReadFuzzy(d)
       [] k = "ReadInvalid" -> DoReadInvalid(d)
       [] k = "ReadIndex" -> DoReadIndex(d) [] k = "PhantomIndex" -> DoPhantomIndex(d)
       [] k = "IndexDone" -> DoIndexDone(d) [] k = "SkipTok" -> DoSkipTok(d)
       [] k = "Pop" -> DoPop(d)           [] k = "FormRing" -> DoFormRing(d)
       [] k = "RingsDone" -> DoRingsDone(d)
       [] k = "WNextRoot" -> DoWNextRoot(d) [] k = "WStep" -> DoWStep(d)
       [] OTHER -> d

Terminal(d) == d.pc \in {"done", "error"}

RECURSIVE Run(_)
Run(d) == IF Terminal(d) \/ Kind(d) = "wait" THEN d ELSE Run(Step(d))

(* the decoder as a function of a complete token sequence *)
DecodeFn(tokens) == Run(InitState(tokens, TRUE))
Outcome(d) == IF d.pc = "error" THEN [kind |-> "DecoderError", value |-> ""]
              ELSE [kind |-> "ok", value |-> d.out]

(***************************************************************************)
(* Properties of a state (C01).  They are state predicates over `d`, so    *)
(* they can be INVARIANTs of every pipeline that embeds the machine.       *)
(***************************************************************************)
ExplicitH(a) == IF a.h > 0 THEN a.h ELSE 0
Valence(d)    == \A i \in 1..Len(d.atoms) : BondSum(d, i) <= d.atoms[i].cap
CapIsTable(d) == \A i \in 1..Len(d.atoms) : d.atoms[i].cap = AtomCapacity(d.table, d.atoms[i].atom)
StateBound(d) ==      \* the frame state never exceeds the free valence of prev
  d.pc \in {"derive", "index"} =>
    \A f \in 1..Len(d.stack) :
      LET fr == d.stack[f] IN
        fr.state > 0 /\ fr.prev > 0 =>
          SumSeq([g \in 1..Len(d.stack) |-> IF d.stack[g].prev = fr.prev /\ d.stack[g].state > 0
                                             THEN d.stack[g].state ELSE 0])
            <= d.atoms[fr.prev].cap - BondSum(d, fr.prev)
NoSelfBond(d)   == \A j \in 1..Len(d.bonds) : d.bonds[j].src # d.bonds[j].dst
NoDoubleEdge(d) == Cardinality({{d.bonds[j].src, d.bonds[j].dst} : j \in 1..Len(d.bonds)}) = Len(d.bonds)
OrdersLegal(d)  == \A j \in 1..Len(d.bonds) : d.bonds[j].order \in 1..3
ChainForward(d) == \A j \in 1..Len(d.bonds) : d.bonds[j].src < d.bonds[j].dst
(* a written label is legal unless MaxLabel rings were open at that moment  *)
(* (then no legal SMILES exists at all: the documented inherent limit)      *)
LabelsLegal(d)  == \A i \in 1..Len(d.labels) : d.labels[i].lab \in 1..MaxLabel \/ d.labels[i].full
LabelOverflow(d) == \E i \in 1..Len(d.labels) : d.labels[i].full
(* Reading the written labels left to right: a label closes the ring that    *)
(* holds it open, and a label is never written for a new ring while another  *)
(* ring still holds it open (unless no legal label was left).                *)
RECURSIVE PairedFrom(_, _, _)
PairedFrom(L, k, open) ==      \* open: set of <<label, bond>> currently open
  IF k > Len(L) THEN TRUE
  ELSE LET e == L[k]
       IN IF <<e.lab, e.bond>> \in open THEN PairedFrom(L, k + 1, open \ {<<e.lab, e.bond>>})
          ELSE IF (\E p \in open : p[1] = e.lab) /\ ~e.full THEN FALSE
          ELSE PairedFrom(L, k + 1, open \cup {<<e.lab, e.bond>>})
LabelsPaired(d) == PairedFrom(d.labels, 1, {})
EveryRingClosed(d) == d.pc = "done" => \A j \in 1..Len(d.lab) : d.lab[j] \in {0, -1} /\ (d.bonds[j].ring <=> d.lab[j] = -1)
Balanced(d) == d.pc = "done" => Count(d.out, "(") = Count(d.out, ")")
NoEmptyBranch(d) == \A i \in 1..(Len(d.out) - 1) : ~(Ch(d.out, i) = "(" /\ Ch(d.out, i + 1) = ")")
AllWritten(d) == d.pc = "done" => Len(d.otok) = Len(d.atoms)

FastEquiv(d) == /\ BcFast(d) = BcMeaning(d) /\ ValenceFast(d) = Valence(d)
                /\ (d.pc \in {"write", "done"} => AdjFast(d) = AdjMeaning(d))

FailedClauses(d) ==
  {c \in {"Valence", "CapIsTable", "NoSelfBond", "NoDoubleEdge", "OrdersLegal", "ChainForward",
          "LabelsLegal", "LabelsPaired", "EveryRingClosed", "Balanced", "NoEmptyBranch", "AllWritten",
          "AdjMeaning", "BcMeaning"} :
     ~ CASE c = "Valence" -> ValenceFast(d) [] c = "CapIsTable" -> CapIsTable(d)
         [] c = "NoSelfBond" -> NoSelfBond(d) [] c = "NoDoubleEdge" -> NoDoubleEdge(d)
         [] c = "OrdersLegal" -> OrdersLegal(d) [] c = "ChainForward" -> ChainForward(d)
         [] c = "LabelsLegal" -> LabelsLegal(d) [] c = "LabelsPaired" -> (d.pc # "done" \/ LabelsPaired(d))
         [] c = "EveryRingClosed" -> EveryRingClosed(d) [] c = "Balanced" -> Balanced(d)
         [] c = "NoEmptyBranch" -> (d.pc # "done" \/ NoEmptyBranch(d)) [] c = "AllWritten" -> AllWritten(d)
         [] c = "AdjMeaning" -> (d.pc \notin {"write", "done"} \/ AdjFast(d))
         [] c = "BcMeaning" -> BcFast(d)}

(* The same clauses evaluated incrementally along a behaviour: the graph     *)
(* clauses only for the atoms the step touched (all other atoms keep their   *)
(* bond sums), everything whenever the machine changes phase.                *)
TouchedAtoms(d, e) ==
  IF Len(e.bonds) > Len(d.bonds) THEN {e.bonds[Len(e.bonds)].src, e.bonds[Len(e.bonds)].dst}
  ELSE IF e.ri > d.ri THEN {d.rings[d.ri].l, d.rings[d.ri].r}
  ELSE IF Len(e.atoms) > Len(d.atoms) THEN {Len(e.atoms)}
  ELSE {}
StepClauses(d, e) ==
  IF e.pc = "done" /\ d.pc # "done" THEN FailedClauses(e)     \* everything once, on the finished molecule
  ELSE LET T == TouchedAtoms(d, e)
       IN (IF \A i \in T : e.bc[i] <= e.atoms[i].cap THEN {} ELSE {"Valence"})
          \cup (IF \A i \in T : e.atoms[i].cap = AtomCapacity(e.table, e.atoms[i].atom) THEN {} ELSE {"CapIsTable"})
          \cup (IF Len(e.bonds) > Len(d.bonds)
                THEN LET b == e.bonds[Len(e.bonds)]
                     IN (IF b.src # b.dst THEN {} ELSE {"NoSelfBond"})
                        \cup (IF b.order \in 1..3 /\ b.src < b.dst THEN {} ELSE {"OrdersLegal"})
                ELSE {})
          \cup (IF Len(e.labels) > Len(d.labels) /\ ~(e.labels[Len(e.labels)].lab \in 1..MaxLabel \/ e.labels[Len(e.labels)].full)
                THEN {"LabelsLegal"} ELSE {})

C01State(d) == /\ Valence(d) /\ CapIsTable(d) /\ NoSelfBond(d) /\ NoDoubleEdge(d)
               /\ OrdersLegal(d) /\ ChainForward(d) /\ LabelsPaired(d)
               /\ EveryRingClosed(d) /\ Balanced(d) /\ NoEmptyBranch(d) /\ AllWritten(d)
=====================================================================
