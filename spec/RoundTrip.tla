---------------------------- MODULE RoundTrip ----------------------------
(* The molecule-level comparisons of the round-trip properties (C03, C04,   *)
(* C05): an input graph (A1 atoms, J1 written adjacency, as read by         *)
(* SmilesReader, aromatic bonds still of order 15) against the molecule     *)
(* held by a decoder-machine state dd.  Each operator returns "" when the   *)
(* clause holds and the name of what differs otherwise (total verdicts).    *)
EXTENDS Encoder, Decoder

RTAtoms(A1, dd) ==
  IF Len(dd.atoms) # Len(A1) THEN "atom count"
  ELSE IF \E i \in 1..Len(A1) : dd.atoms[i].atom.el # A1[i].el THEN "element"
  ELSE IF \E i \in 1..Len(A1) : dd.atoms[i].atom.iso # A1[i].iso THEN "isotope"
  ELSE IF \E i \in 1..Len(A1) : dd.atoms[i].atom.chg # A1[i].chg THEN "charge"
  ELSE IF \E i \in 1..Len(A1) : dd.atoms[i].atom.h # A1[i].h THEN "hydrogen count"
  ELSE IF \E i \in 1..Len(A1) : (dd.atoms[i].atom.chi = "") # (A1[i].chi = "") THEN "chirality tag lost or invented"
  ELSE ""

RTBondSet(dd) == {<<dd.bonds[j].src, dd.bonds[j].dst, dd.bonds[j].order>> : j \in 1..Len(dd.bonds)}

(* the Kekulé assignment read back from dd *)
RTMatching(J1, dd) == {ed \in AroEdges(J1) : <<ed[1], ed[2], 2>> \in RTBondSet(dd)}

RTBonds(A1, J1, dd) ==
  LET B1 == BondSet(J1)   B2 == RTBondSet(dd)
      E  == AroEdges(J1)
      M  == RTMatching(J1, dd)
      DS == {a \in 1..Len(A1) : InDS(E, a)}
  IN IF {<<b[1], b[2]>> : b \in B1} # {<<b[1], b[2]>> : b \in B2} THEN "bonded pairs"
     ELSE IF \E b \in B1 : b[3] # 15 /\ b \notin B2 THEN "bond order"
     ELSE IF \E ed \in E : <<ed[1], ed[2], 1>> \notin B2 /\ <<ed[1], ed[2], 2>> \notin B2 THEN "aromatic bond order"
     ELSE IF \E a \in DS : PiClass(A1, J1, a) = "needs" /\ Cardinality({ed \in M : a \in {ed[1], ed[2]}}) # 1
          THEN "atom that needs a pi bond has none or two"
     ELSE IF \E a \in DS : PiClass(A1, J1, a) = "sat" /\ Cardinality({ed \in M : a \in {ed[1], ed[2]}}) # 0
          THEN "satisfied aromatic atom got a double bond"
     ELSE IF \E a \in DS : Cardinality({ed \in M : a \in {ed[1], ed[2]}}) > 1 THEN "two double bonds at one aromatic atom"
     ELSE ""

RTDecMarks(dd) ==
  UNION {LET b == dd.bonds[j] IN
           IF b.order # 1 THEN {}
           ELSE (IF b.ls # "" THEN {<<b.src, b.dst, b.ls>>} ELSE {})
                \cup (IF b.ring /\ b.rs # "" THEN {<<b.dst, b.src, b.rs>>} ELSE {}) : j \in 1..Len(dd.bonds)}
(* marks of the input that sit on bonds that are single (or aromatic-single) *)
RTInMarks(J1) == {m \in MarkSet(J1) : \E k \in 1..Len(J1[m[1]]) :
                     J1[m[1]][k].kind # "hole" /\ J1[m[1]][k].to = m[2] /\ J1[m[1]][k].order \in {1, 15}}
RTMarks(J1, dd) ==
  LET m1 == RTInMarks(J1)
      (* a mark on an aromatic bond that became a double bond has no place in the output *)
      m2 == RTDecMarks(dd)
      dbl == {m \in m1 : <<Min(m[1], m[2]), Max(m[1], m[2]), 2>> \in RTBondSet(dd)}
  IN IF (m1 \ dbl) = m2 THEN "" ELSE "cis/trans marks"

(* handedness from the written neighbour order: preceding atom, hydrogen    *)
(* (-1), then the out-slots in written order                                 *)
OddPerm(sq) == Cardinality({pr \in (1..Len(sq)) \X (1..Len(sq)) : pr[1] < pr[2] /\ sq[pr[1]] > sq[pr[2]]}) % 2 = 1
NbrsIn(A1, J1, a) == (IF InChain(J1, a).has THEN <<InChain(J1, a).from>> ELSE <<>>)
                     \o (IF A1[a].h > 0 THEN <<-1>> ELSE <<>>) \o OutOrder(J1, a)
DecPrevSet(dd, a) == {dd.bonds[j].src : j \in {x \in 1..Len(dd.bonds) : ~dd.bonds[x].ring /\ dd.bonds[x].dst = a}}
NbrsOut(dd, a) == (IF DecPrevSet(dd, a) # {} THEN <<CHOOSE x \in DecPrevSet(dd, a) : TRUE>> ELSE <<>>)
                  \o (IF dd.atoms[a].atom.h > 0 THEN <<-1>> ELSE <<>>)
                  \o [k \in 1..Len(Adj(dd, a)) |-> Other(dd.bonds[Adj(dd, a)[k]], a)]
RTSense(A1, J1, dd) ==
  IF \E a \in 1..Len(A1) :
        A1[a].chi # "" /\ ((A1[a].chi = "@") # OddPerm(NbrsIn(A1, J1, a)))
                          # ((dd.atoms[a].atom.chi = "@") # OddPerm(NbrsOut(dd, a)))
  THEN "handedness of a chiral centre" ELSE ""
=====================================================================
