--------------------------- MODULE TableSpace ---------------------------
(* Enumeration of candidate constraint tables (C07, C12): every function    *)
(* from a subset of at most MaxKeys keys of KeyPool to CapPool.  KeyPool     *)
(* mixes well-formed keys (elements, charged atoms incl. multi-digit         *)
(* charges, "?") with malformed ones; CapPool contains a negative number.    *)
(* For each candidate the specification says whether it is accepted          *)
(* (ValidTable) and, if so, what the semantically robust alphabet is.        *)
EXTENDS Constraints, Json, TableParams     \* TableParams: KeyPool, CapPool, MaxKeys (generated)

VARIABLE t
Init == \E K \in SUBSET KeyPool : Cardinality(K) <= MaxKeys /\ t \in [K -> CapPool]
Next == UNCHANGED t
Spec == Init /\ [][Next]_t

RA == RobustAlphabet(t)

(* (a) every member of the alphabet is inside the decoder's grammar under t  *)
(*     (an atom symbol is accepted iff its capacity under t is not negative) *)
AlphabetInGrammar ==
  ValidTable(t) =>
    \A s \in RA : LET c == Classify(s)
                  IN /\ c.k \in {"atom", "branch", "ring"}
                     /\ (c.k = "atom" => AtomCapacity(t, c.atom) >= 0)
(* (b) contents as documented *)
AlphabetContents ==
  ValidTable(t) =>
    /\ IndexSymbolSet \subseteq RA /\ BranchSymbolSet \subseteq RA /\ RobustRingSet \subseteq RA
    /\ \A k \in DOMAIN t \ {"?"} : \A b \in {"", "=", "#"} :
          LET sym == "[" \o b \o k \o "]"
          IN /\ (BondOrder(b) <= t[k]) => sym \in RA
             /\ (sym \in RA /\ sym \notin IndexSymbolSet) => BondOrder(b) <= t[k]
    /\ \A s \in RA : s \in IndexSymbolSet \cup BranchSymbolSet \cup RobustRingSet
                  \/ \E k \in DOMAIN t \ {"?"} : \E b \in {"", "=", "#"} : s = "[" \o b \o k \o "]"

TableVector == [table |-> t, valid |-> ValidTable(t), alphabet |-> IF ValidTable(t) THEN RA ELSE {}]
TableEmit == PrintT(ToJson(TableVector))
=====================================================================
