----------------------------- MODULE TraceMatch -----------------------------
(* Trace validation of recorded find_perfect_matching calls (RECORD ->       *)
(* TRACE).  MTr (a JSON file written by the harness) is a list of records    *)
(*    [g   |-> adjacency lists, 0-based, in the order the code received them,*)
(*     ev  |-> << [e |-> "greedy",  mt |-> matching after the greedy phase],  *)
(*                [e |-> "augment", root |-> r, path |-> <<...>>],  ...       *)
(*                [e |-> "fail",    root |-> r],                              *)
(*                [e |-> "return",  ok |-> BOOLEAN, mt |-> matching] >>]      *)
(* (-1 stands for None).  One event is consumed per step with the action of  *)
(* module Matching that the code claims to have taken:                       *)
(*    greedy   = the greedy phase run to completion       (RunGreedy)        *)
(*    augment  = Pick(root) followed by the search        (RunBfs)           *)
(*    fail     = Pick(root), the search ends without a path                  *)
(*    return   = Return                                                      *)
(* Two kinds of verdict, both total (validation always continues with the   *)
(* logged state):                                                           *)
(*    DRIFT     the code took a step the model of the ALGORITHM does not    *)
(*              take (different greedy matching, path, root not unmatched)  *)
(*              - the design-level results for the algorithm no longer      *)
(*              transfer to the code; reported, never a violation by itself *)
(*    CONTRACT  the CONTRACT of the routine is broken, whatever algorithm   *)
(*              is used: a returned matching that is not a perfect matching *)
(*              of the graph, or "None" for a graph for which the model     *)
(*              produces a perfect matching (the witness is re-checked with *)
(*              PerfectC, so the verdict does not rest on the model being   *)
(*              right) - this is a C05 violation.                           *)
EXTENDS Matching, Json

NT == Len(MTr)

VARIABLES m, tid, l, nbad
tvars == <<m, tid, l, nbad>>

OneBased(g) == [a \in 1..Len(g) |-> [k \in 1..Len(g[a]) |-> g[a][k] + 1]]
MtOf(s)     == [i \in 1..Len(s) |-> s[i] + 1]
SeqPlus(s)  == [i \in 1..Len(s) |-> s[i] + 1]

Start(i) == InitM(OneBased(MTr[i].g))
Ev       == MTr[tid].ev[l]
InRange(s)  == \A i \in 1..Len(s) : s[i] \in 0..Len(m.g)

TInit == /\ tid = 1 /\ l = 1 /\ nbad = 0
         /\ m = IF NT >= 1 THEN Start(1) ELSE InitM(<<>>)

Report(kind, clause) == PrintT(ToJson([ev |-> kind, tid |-> tid, l |-> l, clause |-> clause]))


SameLen(mt) == Len(mt) = Len(m.g)

TGreedy ==
  /\ Ev.e = "greedy"
  /\ LET m1 == RunGreedy(m)
         logged == MtOf(Ev.mt)
         ok == SameLen(logged) /\ m1.mt = logged
     IN /\ m' = IF SameLen(logged) /\ InRange(logged) THEN [m1 EXCEPT !.mt = logged, !.un = {i \in NodesOf(m.g) : logged[i] = None}] ELSE m1
        /\ IF ok THEN nbad' = nbad ELSE Report("DRIFT", "greedy phase ends in a different matching") /\ nbad' = nbad + 1

TAugment ==
  /\ Ev.e = "augment"
  /\ LET r == Ev.root + 1
         path == SeqPlus(Ev.path)
         inun == m.pc = "pick" /\ r \in m.un
         m1 == IF inun THEN RunBfs(DoPick(m, r)) ELSE m
         ok == inun /\ m1.pc = "pick" /\ m1.path = path
         usable == InRange(path) /\ \A i \in 1..Len(path) : path[i] # None
         flipped == [m EXCEPT !.mt = IF usable THEN Flip(m.mt, path, 1) ELSE m.mt, !.pc = "pick"]
     IN /\ m' = IF ok THEN m1
                ELSE [flipped EXCEPT !.un = {i \in NodesOf(m.g) : flipped.mt[i] = None}]
        /\ IF ok THEN nbad' = nbad
           ELSE /\ Report("DRIFT", IF ~inun THEN "root is not an unmatched node of the model state"
                                   ELSE IF m1.pc # "pick" THEN "the model finds no augmenting path from this root"
                                   ELSE "a different augmenting path")
                /\ nbad' = nbad + 1

TFail ==
  /\ Ev.e = "fail"
  /\ LET r == Ev.root + 1
         inun == m.pc = "pick" /\ r \in m.un
         m1 == IF inun THEN RunBfs(DoPick(m, r)) ELSE m
         ok == inun /\ m1.pc = "done" /\ m1.res = "none"
     IN /\ m' = [m EXCEPT !.pc = "done", !.res = "none"]
        /\ IF ok THEN nbad' = nbad
           ELSE Report("DRIFT", "the model finds an augmenting path where the code gave up") /\ nbad' = nbad + 1

(* the contract, judged on the logged result alone *)
ContractClause(rec) ==
  LET g == OneBased(MTr[tid].g)
      base == InitM(g)
  IN IF rec.ok
     THEN LET mt == MtOf(rec.mt)
          IN IF Len(mt) # Len(g) THEN "returned list has the wrong length"
             ELSE IF ~PerfectC([base EXCEPT !.mt = mt, !.res = "matched"]) THEN "returned matching is not a perfect matching of the graph"
             ELSE ""
     ELSE LET w == Finish(base)
          IN IF w.res = "matched" /\ PerfectC(w) THEN "None returned for a graph that has a perfect matching"
             ELSE IF Len(g) <= 14 /\ HasPM(g, NodesOf(g)) THEN "None returned for a graph that has a perfect matching (brute force)"
             ELSE ""

TReturn ==
  /\ Ev.e = "return"
  /\ LET c == ContractClause(Ev)
         conform == IF Ev.ok THEN Kind(m) = "Return" /\ m.mt = MtOf(Ev.mt)
                    ELSE m.pc = "done" /\ m.res = "none"
     IN /\ (c # "" => Report("CONTRACT", c))
        /\ ((c = "" /\ ~conform) => Report("DRIFT", "result differs from the model state"))
        /\ nbad' = nbad + (IF c # "" \/ ~conform THEN 1 ELSE 0)
  /\ m' = m

Consume == l' = l + 1 /\ UNCHANGED tid

TStep ==
  /\ tid <= NT /\ l <= Len(MTr[tid].ev)
  /\ (TGreedy \/ TAugment \/ TFail \/ TReturn)
  /\ Consume

TNextRec ==
  /\ tid <= NT /\ l > Len(MTr[tid].ev)
  /\ tid' = tid + 1 /\ l' = 1
  /\ m' = IF tid < NT THEN Start(tid + 1) ELSE m
  /\ nbad' = nbad
  /\ (tid = NT => PrintT(ToJson([ev |-> "DONE", n |-> NT, nbad |-> nbad])))

TNext == TStep \/ TNextRec
TSpec == TInit /\ [][TNext]_tvars
=============================================================================
