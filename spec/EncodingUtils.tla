-------------------------- MODULE EncodingUtils --------------------------
(* Label / one-hot encodings of SELFIES strings and their decoders (C15):   *)
(* selfies_to_encoding, encoding_to_selfies, batch_selfies_to_flat_hot,     *)
(* batch_flat_hot_to_selfies - specified from their docstrings, including   *)
(* which malformed argument raises what.  A string is its token sequence    *)
(* (symbols and dots); a vocabulary is a function symbol -> index.          *)
EXTENDS Integers, Sequences, FiniteSets, TLC, Json, UtilParams
(* UtilParams (generated): Symbols (vocabulary candidates), Extra (symbols  *)
(* used in strings but possibly missing from the vocabulary), MaxStr,       *)
(* Pads, EncTypes                                                           *)

Ok(v)   == [kind |-> "ok", v |-> v]
Err(k)  == [kind |-> k, v |-> <<>>]

Padding(n) == [i \in 1..n |-> "[nop]"]
Padded(toks, pad) == toks \o Padding(IF pad > Len(toks) THEN pad - Len(toks) ELSE 0)

Label(toks, stoi) == [i \in 1..Len(toks) |-> stoi[toks[i]]]
OneHot(lab, n) == [i \in 1..Len(lab) |-> [j \in 1..n |-> IF j - 1 = lab[i] THEN 1 ELSE 0]]

(* selfies_to_encoding(s, vocab_stoi, pad_to_len, enc_type) *)
ToEncoding(toks, stoi, pad, enc) ==
  IF enc \notin {"label", "one_hot", "both"} THEN Err("ValueError")
  ELSE LET p == Padded(toks, pad)
       IN IF \E i \in 1..Len(p) : p[i] \notin DOMAIN stoi THEN Err("KeyError")
          ELSE LET lab == Label(p, stoi)
                   hot == OneHot(lab, Cardinality(DOMAIN stoi))
               IN CASE enc = "label" -> Ok([label |-> lab, onehot |-> <<>>])
                    [] enc = "one_hot" -> Ok([label |-> <<>>, onehot |-> hot])
                    [] OTHER -> Ok([label |-> lab, onehot |-> hot])

(* encoding_to_selfies(encoding, vocab_itos, enc_type) *)
FirstOne(row) == IF \E j \in 1..Len(row) : row[j] = 1
                 THEN (CHOOSE j \in 1..Len(row) : row[j] = 1 /\ \A k \in 1..(j - 1) : row[k] # 1) - 1 ELSE -1
FromLabel(lab, itos) == IF \E i \in 1..Len(lab) : lab[i] \notin DOMAIN itos THEN Err("KeyError")
                        ELSE Ok([i \in 1..Len(lab) |-> itos[lab[i]]])
FromOneHot(hot, itos) == IF \E i \in 1..Len(hot) : FirstOne(hot[i]) = -1 THEN Err("ValueError")
                         ELSE FromLabel([i \in 1..Len(hot) |-> FirstOne(hot[i])], itos)
FromEncoding(x, itos, enc) ==
  CASE enc = "label" -> FromLabel(x, itos) [] enc = "one_hot" -> FromOneHot(x, itos) [] OTHER -> Err("ValueError")

Inverse(stoi) == [i \in {stoi[s] : s \in DOMAIN stoi} |-> CHOOSE s \in DOMAIN stoi : stoi[s] = i]

RECURSIVE Flatten(_)
Flatten(rows) == IF rows = <<>> THEN <<>> ELSE Head(rows) \o Flatten(Tail(rows))
Unflatten(flat, m) == [i \in 1..(Len(flat) \div m) |-> SubSeq(flat, m * (i - 1) + 1, m * i)]
(* batch_flat_hot_to_selfies on one vector *)
FromFlat(flat, itos) ==
  LET m == Cardinality(DOMAIN itos)
  IN IF Len(flat) % m # 0 THEN Err("ValueError") ELSE FromOneHot(Unflatten(flat, m), itos)

-----------------------------------------------------------------------------
(* enumeration: one state per (vocabulary, string, pad, enc_type) *)
VARIABLES stoi, toks, pad, enc
uvars == <<stoi, toks, pad, enc>>

RECURSIVE SeqsUpTo(_, _)
SeqsUpTo(S, n) == IF n = 0 THEN {<<>>} ELSE LET R == SeqsUpTo(S, n - 1)
                                            IN R \cup {Append(q, x) : q \in {r \in R : Len(r) = n - 1}, x \in S}
Bijections(D) == {f \in [D -> 0..(Cardinality(D) - 1)] : \A a, b \in D : a # b => f[a] # f[b]}

(* well-formed strings only: a dot stands between two symbols *)
WFToks(q) == \A i \in 1..Len(q) : q[i] = "." => (1 < i /\ i < Len(q) /\ q[i - 1] # "." /\ q[i + 1] # ".")
UInit == /\ \E D \in (SUBSET Symbols) \ {{}} : stoi \in Bijections(D)
         /\ toks \in {q \in SeqsUpTo(Symbols \cup Extra, MaxStr) : WFToks(q)}
         /\ pad \in Pads /\ enc \in EncTypes
UNext == UNCHANGED uvars
USpec == UInit /\ [][UNext]_uvars

R == ToEncoding(toks, stoi, pad, enc)
N == Cardinality(DOMAIN stoi)
(* C15 clauses *)
LabelShape == (R.kind = "ok" /\ enc # "one_hot") =>
                 /\ Len(R.v.label) = (IF pad > Len(toks) THEN pad ELSE Len(toks))
                 /\ \A i \in 1..Len(toks) : R.v.label[i] = stoi[toks[i]]
                 /\ \A i \in (Len(toks) + 1)..Len(R.v.label) : R.v.label[i] = stoi["[nop]"]
OneHotExactlyOne == (R.kind = "ok" /\ enc # "label") =>
                 \A i \in 1..Len(R.v.onehot) :
                    /\ Len(R.v.onehot[i]) = N
                    /\ Cardinality({j \in 1..N : R.v.onehot[i][j] = 1}) = 1
                    /\ \A j \in 1..N : R.v.onehot[i][j] \in {0, 1}
InverseHolds == R.kind = "ok" =>
                 /\ (enc # "one_hot" => FromEncoding(R.v.label, Inverse(stoi), "label") = Ok(Padded(toks, pad)))
                 /\ (enc # "label" => FromEncoding(R.v.onehot, Inverse(stoi), "one_hot") = Ok(Padded(toks, pad)))
                 /\ (enc # "label" => FromFlat(Flatten(R.v.onehot), Inverse(stoi)) = Ok(Padded(toks, pad)))
RaisesNotWrong == /\ (enc \notin {"label", "one_hot", "both"} => R.kind = "ValueError")
                  /\ ((enc \in {"label", "one_hot", "both"} /\ \E i \in 1..Len(toks) : toks[i] \notin DOMAIN stoi) => R.kind = "KeyError")
                  /\ ((enc \in {"label", "one_hot", "both"} /\ pad > Len(toks) /\ "[nop]" \notin DOMAIN stoi) => R.kind = "KeyError")

UVector == [stoi |-> stoi, toks |-> toks, pad |-> pad, enc |-> enc, kind |-> R.kind,
            label |-> IF R.kind = "ok" THEN R.v.label ELSE <<>>,
            onehot |-> IF R.kind = "ok" THEN R.v.onehot ELSE <<>>]
UEmit == PrintT(ToJson(UVector))
=====================================================================
