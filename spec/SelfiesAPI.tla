---------------------------- MODULE SelfiesAPI ----------------------------
(* The library as a stateful service: one process-global constraint table,   *)
(* presets, the memoisation layers, and the objects that cross the API       *)
(* boundary (with identity, so that aliasing is expressible).  One action    *)
(* per public call, valid and rejected variants, plus CallerMutates.         *)
(*                                                                          *)
(* heap[i] = [kind |-> "tab", v |-> function key -> capacity]                *)
(*         | [kind |-> "set", v |-> set of symbols]                          *)
(* cur    : heap index of the live table      alpha : index of the memoised  *)
(* alphabet (0 = not computed)     capc : memoised capacities, a function    *)
(* from "El+chg" keys to capacities   symc : symbols already classified      *)
(* refs   : indices the caller holds  hist : the calls made so far with      *)
(* their observable results (generation configs only).                       *)
(* Decode / Encode are big steps whose result is DEFINED by the machines of  *)
(* modules Decoder / Encoder run under the capacities the call sees (memo    *)
(* first, then the live table) - so a missing invalidation is expressible:   *)
(* ApiParams!ClearOnSet = FALSE is the negative configuration.               *)
EXTENDS Encoder, Decoder, Json, ApiParams
(* ApiParams (generated): Presets (names), Customs (sequence of candidate    *)
(* tables, valid and invalid), DProbes (sequence of token sequences),        *)
(* EProbes (sequence of token-text sequences), MaxHist, MaxHeap,             *)
(* AliasAlphabet, ClearOnSet, CopyOnSet (design switches; TRUE/TRUE/TRUE is  *)
(* the documented design except AliasAlphabet which documents the code).     *)

VARIABLES heap, cur, alpha, capc, symc, refs, hist
avars == <<heap, cur, alpha, capc, symc, refs, hist>>

TObj(t) == [kind |-> "tab", v |-> t]
SObj(s) == [kind |-> "set", v |-> s]
Cur == heap[cur].v
nxt == Len(heap) + 1
Room(n) == Len(heap) + n <= MaxHeap
CanCall == Len(hist) < MaxHist

PresetIdx(name) == CASE name = "default" -> 1 [] name = "octet_rule" -> 2 [] name = "hypervalent" -> 3

AInit == /\ heap = <<TObj(DefaultTable), TObj(OctetTable), TObj(HypervalentTable), TObj(DefaultTable)>>
         /\ cur = 4 /\ alpha = 0 /\ capc = <<>> /\ symc = {} /\ refs = {} /\ hist = <<>>

Log(op, arg, obs) == hist' = Append(hist, [op |-> op, arg |-> arg, obs |-> obs])
(* observable results, tagged so that they can be compared *)
ONone == [t |-> "None"]
OErr  == [t |-> "ValueError"]
OTab(v) == [t |-> "table", v |-> v]
OSet(v) == [t |-> "set", v |-> v]
OOut(o) == [t |-> "out", kind |-> o.kind, value |-> o.value]

(* ---- configuration ---- *)
Invalidate == IF ClearOnSet THEN alpha' = 0 /\ capc' = <<>> ELSE UNCHANGED <<alpha, capc>>

SetPreset(name) ==
  /\ CanCall /\ Room(1)
  /\ heap' = Append(heap, heap[PresetIdx(name)]) /\ cur' = nxt
  /\ Invalidate /\ UNCHANGED <<symc, refs>> /\ Log("set_preset", name, ONone)

SetBadPreset ==
  /\ CanCall /\ UNCHANGED <<heap, cur, alpha, capc, symc, refs>> /\ Log("set_preset", "no_such_preset", OErr)

(* the caller creates a dict (it holds the only reference) *)
CallerNew(i) ==
  /\ CanCall /\ Room(1)
  /\ heap' = Append(heap, TObj(Customs[i])) /\ refs' = refs \cup {nxt}
  /\ UNCHANGED <<cur, alpha, capc, symc>> /\ Log("new_dict", <<i, nxt>>, ONone)

SetCustom(o) ==
  /\ CanCall /\ o \in refs /\ heap[o].kind = "tab"
  /\ IF ValidTable(heap[o].v)
     THEN /\ IF CopyOnSet THEN Room(1) /\ heap' = Append(heap, heap[o]) /\ cur' = nxt
                          ELSE heap' = heap /\ cur' = o
          /\ Invalidate /\ UNCHANGED <<symc, refs>> /\ Log("set_custom", o, ONone)
     ELSE /\ UNCHANGED <<heap, cur, alpha, capc, symc, refs>> /\ Log("set_custom", o, OErr)

GetConstraints ==
  /\ CanCall /\ Room(1)
  /\ heap' = Append(heap, heap[cur]) /\ refs' = refs \cup {nxt}
  /\ UNCHANGED <<cur, alpha, capc, symc>> /\ Log("get_constraints", nxt, OTab(Cur))

GetPreset(name) ==
  /\ CanCall /\ Room(1)
  /\ heap' = Append(heap, heap[PresetIdx(name)]) /\ refs' = refs \cup {nxt}
  /\ UNCHANGED <<cur, alpha, capc, symc>> /\ Log("get_preset", <<name, nxt>>, OTab(heap[PresetIdx(name)].v))

GetAlphabet ==
  /\ CanCall
  /\ IF alpha = 0
     THEN IF AliasAlphabet
          THEN /\ Room(1) /\ heap' = Append(heap, SObj(RobustAlphabet(Cur))) /\ alpha' = nxt /\ refs' = refs \cup {nxt}
               /\ Log("get_alphabet", nxt, OSet(RobustAlphabet(Cur)))
          ELSE /\ Room(2) /\ heap' = heap \o <<SObj(RobustAlphabet(Cur)), SObj(RobustAlphabet(Cur))>>
               /\ alpha' = nxt /\ refs' = refs \cup {nxt + 1} /\ Log("get_alphabet", nxt + 1, OSet(RobustAlphabet(Cur)))
     ELSE IF AliasAlphabet
          THEN /\ refs' = refs \cup {alpha} /\ UNCHANGED <<heap, alpha>> /\ Log("get_alphabet", alpha, OSet(heap[alpha].v))
          ELSE /\ Room(1) /\ heap' = Append(heap, heap[alpha]) /\ refs' = refs \cup {nxt} /\ UNCHANGED alpha
               /\ Log("get_alphabet", nxt, OSet(heap[alpha].v))
  /\ UNCHANGED <<cur, capc, symc>>

(* the caller edits an object it holds *)
Edit(obj) == IF obj.kind = "tab"
             THEN TObj([k \in (DOMAIN obj.v \cup {"C", "Zz"}) \ {"?"} |-> IF k = "C" THEN 0 ELSE IF k = "Zz" THEN 1 ELSE obj.v[k]])
             ELSE SObj((obj.v \cup {"[junk]"}) \ {"[C]", "[=C]"})
CallerMutates(o) ==
  /\ CanCall /\ o \in refs
  /\ heap' = [heap EXCEPT ![o] = Edit(@)]
  /\ UNCHANGED <<cur, alpha, capc, symc, refs>> /\ Log("mutate", o, ONone)

(* ---- translation ---- *)
(* the capacities a call sees: memoised entries first, then the live table *)
Seen == [k \in (DOMAIN Cur \cup DOMAIN capc) |-> IF k \in DOMAIN capc THEN capc[k] ELSE Cur[k]]
KeysOfAtoms(as) == {as[i].atom.el \o as[i].atom.chg : i \in 1..Len(as)}
Memo(keys) == [k \in (DOMAIN capc \cup keys) |-> IF k \in DOMAIN capc THEN capc[k] ELSE Capacity(Cur, k, "")]

Decode(i) ==
  /\ CanCall
  /\ LET dd == Run(InitStateT(DProbes[i], TRUE, FALSE, Seen))
     IN /\ capc' = Memo(KeysOfAtoms(dd.atoms))
        /\ symc' = symc \cup {DProbes[i][j] : j \in 1..Len(DProbes[i])}
        /\ Log("decode", i, OOut(Outcome(dd)))
  /\ UNCHANGED <<heap, cur, alpha, refs>>

(* the same call with compatible=True; offered for probes that contain a symbol only that flag accepts *)
NeedsCompat(i) == \E j \in 1..Len(DProbes[i]) : Modernize(DProbes[i][j]) # DProbes[i][j]
DecodeCompat(i) ==
  /\ CanCall /\ NeedsCompat(i)
  /\ LET dd == Run(InitStateT(DProbes[i], TRUE, TRUE, Seen))
     IN /\ capc' = Memo(KeysOfAtoms(dd.atoms))
        /\ symc' = symc \cup {Modernize(DProbes[i][j]) : j \in 1..Len(DProbes[i])}
        /\ Log("decode_compat", i, OOut(Outcome(dd)))
  /\ UNCHANGED <<heap, cur, alpha, refs>>

EncOutcome(x) == OOut(EOutcome(x))
Encode(j, strict) ==
  /\ CanCall
  /\ LET x == ERun(EInitT(EProbes[j], TRUE, strict, Seen))
     IN /\ capc' = IF strict THEN Memo({x.atoms[a].el \o x.atoms[a].chg : a \in 1..Len(x.atoms)}) ELSE capc
        /\ Log(IF strict THEN "encode_strict" ELSE "encode", j, EncOutcome(x))
  /\ UNCHANGED <<heap, cur, alpha, symc, refs>>

ANext == \/ \E n \in Presets : SetPreset(n) \/ GetPreset(n)
         \/ SetBadPreset
         \/ \E i \in 1..Len(Customs) : CallerNew(i)
         \/ \E o \in 1..Len(heap) : SetCustom(o) \/ CallerMutates(o)
         \/ GetConstraints \/ GetAlphabet
         \/ \E i \in 1..Len(DProbes) : Decode(i) \/ DecodeCompat(i)
         \/ \E j \in 1..Len(EProbes) : Encode(j, TRUE) \/ Encode(j, FALSE)
ASpec == AInit /\ [][ANext]_avars

-----------------------------------------------------------------------------
(* C12 *)
PresetsImmutable == heap[1] = TObj(DefaultTable) /\ heap[2] = TObj(OctetTable) /\ heap[3] = TObj(HypervalentTable)
NoAliasing == refs \cap ({cur, 1, 2, 3} \cup (IF alpha = 0 THEN {} ELSE {alpha})) = {}
CurValid == ValidTable(Cur)
(* a rejected call changes nothing the library reads *)
RejectAtomic == [][(Len(hist') > Len(hist) /\ hist'[Len(hist')].obs.t = "ValueError")
                     => UNCHANGED <<heap, cur, alpha, capc, symc>>]_avars
(* set followed by get returns an equal table *)
SetGet == \A i \in 2..Len(hist) :
             (hist[i].op = "get_constraints" /\ hist[i - 1].op = "set_preset" /\ hist[i - 1].obs.t = "None")
                => hist[i].obs = OTab(heap[PresetIdx(hist[i - 1].arg)].v)

(* C11 *)
CachesCoherent == /\ \A k \in DOMAIN capc : capc[k] = Capacity(Cur, k, "")
                  /\ (alpha # 0 => heap[alpha].v = RobustAlphabet(Cur))
(* every translation result equals the result of a cache-free computation under the live table *)
FreshDecode(i) == OOut(Outcome(Run(InitStateT(DProbes[i], TRUE, FALSE, Cur))))
FreshDecodeC(i) == OOut(Outcome(Run(InitStateT(DProbes[i], TRUE, TRUE, Cur))))
FreshEncode(j, strict) == EncOutcome(ERun(EInitT(EProbes[j], TRUE, strict, Cur)))
ResultFresh ==
  Len(hist) > 0 =>
    LET h == hist[Len(hist)]
    IN /\ (h.op = "decode" => h.obs = FreshDecode(h.arg))
       /\ (h.op = "decode_compat" => h.obs = FreshDecodeC(h.arg))
       /\ (h.op = "encode_strict" => h.obs = FreshEncode(h.arg, TRUE))
       /\ (h.op = "encode" => h.obs = FreshEncode(h.arg, FALSE))
(* strict=False never depends on the table *)
LaxTableFree == \A j \in 1..Len(EProbes) :
                   EncOutcome(ERun(EInitT(EProbes[j], TRUE, FALSE, Cur)))
                     = EncOutcome(ERun(EInitT(EProbes[j], TRUE, FALSE, DefaultTable)))

HistEmit == (Len(hist) = MaxHist) => PrintT(ToJson([hist |-> hist]))
AView == <<heap, cur, alpha, capc, symc, refs, Len(hist)>>
=====================================================================
