---------------------------- MODULE Encoder ----------------------------
(* selfies.encoder as a machine:                                            *)
(*   SMILES tokens -> SmilesReader (graph in written order) -> Kekulize     *)
(*   (nondeterministic choice among the valid single/double assignments,    *)
(*   or failure when none exists) -> strict valence check -> chirality      *)
(*   parity fix-up -> emission of atom / ring / branch symbols with base-16 *)
(*   index symbols.                                                         *)
(* Sources: the encoder docstring, derivation.rst (what the emitted symbols *)
(* must mean to the decoder), OpenSMILES (aromaticity, chirality by written *)
(* neighbour order), CHANGELOG v2 (standard symbols, ring stereo symbols).  *)
(* State is one record `e`; every deterministic step is EStepFn; the Kekulé *)
(* choice is the only nondeterministic action (KekChoices).                 *)
EXTENDS Constraints, SmilesReader, DecParams
(* From DecParams (generated per model): Table (the constraint table in      *)
(* force) and Strict (the strict flag used by EncodeCall).                   *)

(***************************************************************************)
(* Aromaticity: which atoms of the delocalisation subgraph need a pi bond  *)
(***************************************************************************)
Group(el) == ValenceElectrons(el)                    \* 0 when the element has no aromatic form
BaseValence(g) == CASE g = 3 -> 3 [] g = 4 -> 4 [] g = 5 -> 3 [] g = 6 -> 2 [] OTHER -> 0
ChargeInt(chg) == IF chg = "" THEN 0
                  ELSE IF Len(chg) > 3 THEN 99
                  ELSE (IF Ch(chg, 1) = "+" THEN 1 ELSE -1) * NatOf(From(chg, 2))

SigmaOrder(o) == IF o = 15 THEN 1 ELSE o
(* sum of sigma-counted orders over all bonds at atom a: out-slots plus the incoming chain bond *)
InChain(adj, a) ==
  LET P == {p \in 1..(a - 1) : \E k \in 1..Len(adj[p]) : adj[p][k].kind = "chain" /\ adj[p][k].to = a}
  IN IF P = {} THEN [has |-> FALSE, order |-> 0, from |-> 0]
     ELSE LET p == CHOOSE p \in P : TRUE
              k == CHOOSE k \in 1..Len(adj[p]) : adj[p][k].kind = "chain" /\ adj[p][k].to = a
          IN [has |-> TRUE, order |-> adj[p][k].order, from |-> p]
OutSum(adj, a, F(_)) == SumSeq([k \in 1..Len(adj[a]) |-> IF adj[a][k].kind = "hole" THEN 0 ELSE F(adj[a][k].order)])
SigmaCount(adj, a) == OutSum(adj, a, SigmaOrder) + SigmaOrder(InChain(adj, a).order)
BondSumE(adj, a)   == OutSum(adj, a, LAMBDA o : o) + InChain(adj, a).order     \* after kekulisation

(* aromatic ("one and a half") bonds as pairs <<lo, hi>>; AroEdgesDef is the   *)
(* definition over all pairs, AroEdges the same set collected slot by slot     *)
AroEdgesDef(adj) ==
  {ed \in (1..Len(adj)) \X (1..Len(adj)) :
     ed[1] < ed[2] /\ \/ \E k \in 1..Len(adj[ed[1]]) : adj[ed[1]][k].kind # "hole" /\ adj[ed[1]][k].to = ed[2] /\ adj[ed[1]][k].order = 15
                      \/ \E k \in 1..Len(adj[ed[2]]) : adj[ed[2]][k].kind # "hole" /\ adj[ed[2]][k].to = ed[1] /\ adj[ed[2]][k].order = 15}
AroEdges(adj) ==
  UNION {{<<Min(i, adj[i][k].to), Max(i, adj[i][k].to)>> :
            k \in {x \in 1..Len(adj[i]) : adj[i][x].kind # "hole" /\ adj[i][x].order = 15}} : i \in 1..Len(adj)}
InDS(E, a) == \E ed \in E : a \in {ed[1], ed[2]}

(* "needs": exactly one pi bond required; "sat": none; "unspec": the         *)
(* property does not decide (hypervalent, radical and exotic centres):       *)
(* either reading is allowed there and nothing else.                         *)
PiClass(atoms, adj, a) ==
  LET at == atoms[a]
      t  == SigmaCount(adj, a) + (IF at.h > 0 THEN at.h ELSE 0)
      g  == Group(at.el)
  IN IF g = 0 THEN "unspec"
     ELSE IF at.h = -1                                   \* unbracketed: hydrogens are implicit
          THEN LET v0 == BaseValence(g)
               IN IF t = v0 THEN "sat" ELSE IF t < v0 THEN "needs"
                  ELSE IF t \in AroValences(at.el) THEN "sat" ELSE "unspec"
          ELSE LET v0 == BaseValence(g - ChargeInt(at.chg))     \* isoelectronic neutral element
               IN IF v0 = 0 THEN "unspec"
                  ELSE IF t = v0 THEN "sat"
                  (* one bond short of the normal valence: the closed-shell reading needs a pi   *)
                  (* bond; for an anion the library's radical reading (lone pair in the ring,    *)
                  (* no pi bond) is a defensible alternative, so anions are left undecided       *)
                  ELSE IF t = v0 - 1 /\ ChargeInt(at.chg) >= 0 THEN "needs" ELSE "unspec"

MatchingOn(M, Must, May, Never) ==      \* M: set of edges
  /\ \A a \in Must  : Cardinality({ed \in M : a \in {ed[1], ed[2]}}) = 1
  /\ \A a \in May   : Cardinality({ed \in M : a \in {ed[1], ed[2]}}) <= 1
  /\ \A a \in Never : Cardinality({ed \in M : a \in {ed[1], ed[2]}}) = 0

KekOrder(adj, a, k, M) ==
  LET b == adj[a][k]
  IN IF b.kind = "hole" \/ b.order # 15 THEN b.order
     ELSE IF <<Min(a, b.to), Max(a, b.to)>> \in M THEN 2 ELSE 1
ApplyKek(adj, M) == [a \in 1..Len(adj) |-> [k \in 1..Len(adj[a]) |-> [adj[a][k] EXCEPT !.order = KekOrder(adj, a, k, M)]]]

(***************************************************************************)
(* State                                                                   *)
(***************************************************************************)
EInitT(toks, closed, strict, table) ==
  [ toks |-> toks, closed |-> closed, tp |-> 0, strict |-> strict, table |-> table,
    p |-> PInit, pc |-> "parse", why |-> "",
    atoms |-> <<>>, adj |-> <<>>, rf |-> <<>>,
    est |-> <<>>, nroot |-> 0, outp |-> <<>>, oat |-> <<>> ]

EInit(toks, closed, strict) == EInitT(toks, closed, strict, Table)

EWaiting(e) == e.pc = "parse" /\ e.tp = Len(e.toks) /\ ~e.closed
EFail(e, why) == [e EXCEPT !.pc = "error", !.why = why]

(* ---- parse ---- *)
DoTok(e) ==
  LET t == TokOf(e.toks[e.tp + 1])
      q == IF t.ty = "bad" THEN PErr(e.p, "unrecognised token") ELSE PStep(e.p, t)
  IN IF q.err # "" THEN EFail([e EXCEPT !.p = q, !.tp = @ + 1], "parse")
     ELSE [e EXCEPT !.p = q, !.tp = @ + 1]
DoEndParse(e) ==
  LET q == PFinish(e.p)
  IN IF q.err # "" THEN EFail([e EXCEPT !.p = q], "parse")
     ELSE [e EXCEPT !.p = q, !.pc = "kek", !.atoms = q.atoms, !.adj = q.adj,
                    !.rf = [a \in 1..Len(q.adj) |-> \E k \in 1..Len(q.adj[a]) : q.adj[a][k].kind = "ring"]]

(* ---- kekulise: the set of allowed successor states ---- *)
KekChoices(e) ==
  LET E     == AroEdges(e.adj)
      DS    == {a \in 1..Len(e.atoms) : InDS(E, a)}
      Needs == {a \in DS : PiClass(e.atoms, e.adj, a) = "needs"}
      Sat   == {a \in DS : PiClass(e.atoms, e.adj, a) = "sat"}
      Un    == DS \ (Needs \cup Sat)
      Ms    == {M \in SUBSET E : MatchingOn(M, Needs, Un, Sat)}
      (* failure is allowed iff some reading U of the undecided atoms admits no assignment *)
      canFail == \E U \in SUBSET Un : ~\E M \in SUBSET E : MatchingOn(M, Needs \cup U, {}, Sat \cup (Un \ U))
      done(M) == [e EXCEPT !.pc = "strict", !.adj = ApplyKek(e.adj, M),
                           !.atoms = [a \in 1..Len(e.atoms) |-> [e.atoms[a] EXCEPT !.aro = FALSE]]]
  IN {done(M) : M \in Ms} \cup (IF canFail THEN {EFail(e, "kekulize")} ELSE {})

(* ---- strict check ---- *)
ExplicitHE(a) == IF a.h > 0 THEN a.h ELSE 0
Overfull(e) == {a \in 1..Len(e.atoms) : BondSumE(e.adj, a) + ExplicitHE(e.atoms[a]) > Capacity(e.table, e.atoms[a].el, e.atoms[a].chg)}
DoStrict(e) == IF e.strict /\ Overfull(e) # {} THEN EFail(e, "constraints") ELSE [e EXCEPT !.pc = "chir"]

(* ---- chirality: the decoder will write ring closures first (ring bonds   *)
(* whose other end came earlier, then those whose other end comes later in  *)
(* order of that end), then branches; invert the tag when that permutation  *)
(* of the written out-slots is odd                                           *)
Inversions(sq) == Cardinality({pr \in (1..Len(sq)) \X (1..Len(sq)) : pr[1] < pr[2] /\ sq[pr[1]] > sq[pr[2]]})
RECURSIVE SortByTo(_, _, _)
SortByTo(adj, S, a) == IF S = {} THEN <<>>
                       ELSE LET m == CHOOSE x \in S : \A y \in S : adj[a][x].to <= adj[a][y].to
                            IN <<m>> \o SortByTo(adj, S \ {m}, a)
ShouldInvert(adj, a) ==
  LET I  == 1..Len(adj[a])
      p0 == SortedSeq({i \in I : adj[a][i].kind = "ring" /\ adj[a][i].to < a})
      p1 == SortByTo(adj, {i \in I : adj[a][i].kind = "ring" /\ adj[a][i].to > a}, a)
      p2 == SortedSeq({i \in I : adj[a][i].kind = "chain"})
  IN Inversions(p0 \o p1 \o p2) % 2 = 1
Flip(c) == IF c = "@" THEN "@@" ELSE IF c = "@@" THEN "@" ELSE c
DoChir(e) ==
  [e EXCEPT !.pc = "emit",
            !.atoms = [a \in 1..Len(e.atoms) |->
                         IF e.atoms[a].chi # "" /\ e.rf[a] /\ ShouldInvert(e.adj, a)
                         THEN [e.atoms[a] EXCEPT !.chi = Flip(@)] ELSE e.atoms[a]]]

(* ---- emission ---- *)
ERoots(e) == SelectSeq([i \in 1..Len(e.atoms) |-> i], LAMBDA i : ~InChain(e.adj, i).has)
EBondChar(order, st, show) == IF order = 2 THEN "=" ELSE IF order = 3 THEN "#" ELSE IF show THEN st ELSE ""
AtomSymbol(e, bchar, a) == "[" \o bchar \o SpellAtomBody(e.atoms[a]) \o "]"
RingPrefix(lb, rb) ==    \* lb: the slot at the earlier atom, rb: at the later (closing) atom
  IF rb.order # 1 \/ (lb.st = "" /\ rb.st = "") THEN EBondChar(rb.order, "", FALSE)
  ELSE (IF lb.st = "" THEN "-" ELSE lb.st) \o (IF rb.st = "" THEN "-" ELSE rb.st)

DoEStart(e) ==
  LET R == ERoots(e)
  IN IF e.nroot < Len(R)
     THEN LET a == R[e.nroot + 1]
          IN [e EXCEPT !.est = <<[d |-> <<AtomSymbol(e, "", a)>>, da |-> <<a>>, cur |-> a, i |-> 0, bq |-> 0]>>,
                       !.nroot = @ + 1,
                       !.outp = IF e.nroot = 0 THEN @ ELSE Append(@, "."),
                       !.oat  = IF e.nroot = 0 THEN @ ELSE Append(@, 0)]
     ELSE [e EXCEPT !.pc = "done"]

(* An atom's ring closures are emitted before its branches - the order in   *)
(* which the decoder will write them - wherever the ring digits stand in    *)
(* the input; the chain continues along the last non-ring bond.             *)
EmitOrder(adj, a) ==
  SortedSeq({k \in 1..Len(adj[a]) : adj[a][k].kind = "ring"}) \o SortedSeq({k \in 1..Len(adj[a]) : adj[a][k].kind = "chain"})

DoEStep(e) ==
  LET f  == e.est[Len(e.est)]
      eo == EmitOrder(e.adj, f.cur)
      ob == [k \in 1..Len(eo) |-> e.adj[f.cur][eo[k]]]
  IN IF f.i < Len(ob)
     THEN LET b == ob[f.i + 1]
              last == (f.i + 1 = Len(ob))
          IN IF b.kind = "ring"
             THEN IF b.to > f.cur
                  THEN [e EXCEPT !.est[Len(e.est)].i = f.i + 1]          \* opening end: nothing is emitted here
                  ELSE LET rev == CHOOSE k \in 1..Len(e.adj[b.to]) : e.adj[b.to][k].kind = "ring" /\ e.adj[b.to][k].to = f.cur
                           q   == IndexSymbols(f.cur - b.to - 1)
                           rs  == "[" \o RingPrefix(e.adj[b.to][rev], b) \o "Ring" \o ToString(Len(q)) \o "]"
                       IN [e EXCEPT !.est[Len(e.est)].i = f.i + 1,
                                    !.est[Len(e.est)].d = @ \o <<rs>> \o q,
                                    !.est[Len(e.est)].da = @ \o [x \in 1..(Len(q) + 1) |-> 0]]
             ELSE LET sym == AtomSymbol(e, EBondChar(b.order, b.st, TRUE), b.to)
                  IN IF last
                     THEN [e EXCEPT !.est[Len(e.est)] = [d |-> f.d \o <<sym>>, da |-> f.da \o <<b.to>>, cur |-> b.to, i |-> 0, bq |-> f.bq]]
                     ELSE [e EXCEPT !.est = Append([e.est EXCEPT ![Len(e.est)].i = f.i + 1],
                                                   [d |-> <<sym>>, da |-> <<b.to>>, cur |-> b.to, i |-> 0, bq |-> b.order])]
     ELSE IF Len(e.est) = 1
          THEN [e EXCEPT !.est = <<>>, !.outp = @ \o f.d, !.oat = @ \o f.da]
          ELSE LET q   == IndexSymbols(Len(f.d) - 1)
                   bs  == "[" \o EBondChar(f.bq, "", FALSE) \o "Branch" \o ToString(Len(q)) \o "]"
                   par == e.est[Len(e.est) - 1]
               IN [e EXCEPT !.est = Append(SubSeq(e.est, 1, Len(e.est) - 2),
                                           [par EXCEPT !.d = @ \o <<bs>> \o q \o f.d,
                                                       !.da = @ \o [x \in 1..(Len(q) + 1) |-> 0] \o f.da])]

(***************************************************************************)
(* Dispatcher and step                                                     *)
(***************************************************************************)
EKind(e) ==
  CASE e.pc = "parse" -> IF e.tp < Len(e.toks) THEN "Tok" ELSE IF e.closed THEN "EndParse" ELSE "wait"
    [] e.pc = "kek"   -> "Kek"
    [] e.pc = "strict" -> "Strict"
    [] e.pc = "chir"  -> "Chir"
    [] e.pc = "emit"  -> IF e.est = <<>> THEN "EStart" ELSE "EStep"
    [] OTHER -> e.pc

EStepFn(e) ==
  LET k == EKind(e)
  IN CASE k = "Tok" -> DoTok(e) [] k = "EndParse" -> DoEndParse(e) [] k = "Strict" -> DoStrict(e)
       [] k = "Chir" -> DoChir(e) [] k = "EStart" -> DoEStart(e) [] k = "EStep" -> DoEStep(e)
       [] OTHER -> e

ETerminal(e) == e.pc \in {"done", "error"}
EOutcome(e) == IF e.pc = "error" THEN [kind |-> "EncoderError", value |-> "", why |-> e.why]
               ELSE [kind |-> "ok", value |-> Concat(e.outp), why |-> ""]

(* the encoder as a function (input without aromatic bonds: the Kekulé step is trivial) *)
RECURSIVE ERun(_)
ERun(x) == IF ETerminal(x) \/ EKind(x) = "wait" THEN x
           ELSE IF EKind(x) = "Kek" THEN ERun(CHOOSE n \in KekChoices(x) : TRUE)
           ELSE ERun(EStepFn(x))

=====================================================================
