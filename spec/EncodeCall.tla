--------------------------- MODULE EncodeCall ---------------------------
(* One call of selfies.encoder as a TLA+ behaviour, followed (at terminal   *)
(* states) by the round trip through the decoder machine:                   *)
(*    G1 = Parse(input);  E = Encode(G1);  D = Decode(E);                   *)
(*    E2 = Encode(Parse(Write(D)))                                          *)
(* Generation mode: the SMILES is chosen lazily token by token (Supply),    *)
(* so malformed prefixes die at the first parser error.                     *)
EXTENDS Encoder, Decoder, RoundTrip, Json

VARIABLE e
evars == <<e>>

EncInit == e = EInit(<<>>, FALSE, Strict)

ESupply(t) == /\ EWaiting(e) /\ Len(e.toks) < MaxLen
              /\ (Len(e.toks) = 0 => t \in FirstSyms)
              /\ (Len(e.toks) = 1 => t \in SecondSyms)
              /\ e' = [e EXCEPT !.toks = Append(@, t)]
EClose == /\ EWaiting(e) /\ (Len(e.toks) = 0 => AllowEmpty) /\ e' = [e EXCEPT !.closed = TRUE]
EKek   == /\ EKind(e) = "Kek" /\ \E n \in KekChoices(e) : e' = n
EDet   == /\ EKind(e) \in {"Tok", "EndParse", "Strict", "Chir", "EStart", "EStep"} /\ e' = EStepFn(e)

EncNext == (\E t \in Alphabet : ESupply(t)) \/ EClose \/ EKek \/ EDet
EncSpec == EncInit /\ [][EncNext]_evars
EncFair == EncSpec /\ WF_evars(EncNext)
EncTerminates == <>(ETerminal(e))

-----------------------------------------------------------------------------
(* Round trip, evaluated at accepted terminal states *)
Dec == DecodeFn(e.outp)                       \* the decoder machine on the emitted symbols
G1a == e.p.atoms
G1j == e.p.adj

(* C10: the output is inside the decoder's grammar under Table *)
OutInGrammar == e.pc = "done" => (Dec.pc = "done" /\ ~Dec.fuzzy)
WellFormedOut == e.pc = "done" =>
   \A i \in 1..Len(e.outp) : e.outp[i] = "." \/ Classify(e.outp[i]).k \in {"atom", "branch", "ring"}

(* C03 / C04: the comparisons live in module RoundTrip (shared with TraceRT) *)
SameAtoms == e.pc = "done" => RTAtoms(G1a, Dec) = ""
SameBonds == e.pc = "done" => RTBonds(G1a, G1j, Dec) = ""
SameMarks == e.pc = "done" => RTMarks(G1j, Dec) = ""
SameSense == e.pc = "done" => RTSense(G1a, G1j, Dec) = ""

(* the same for strict=False, where the round trip is only promised for molecules that obey the table *)
SameSenseV == (e.pc = "done" /\ Overfull(e) = {}) => (RTAtoms(G1a, Dec) = "" /\ RTSense(G1a, G1j, Dec) = "")
SameMarksV == (e.pc = "done" /\ Overfull(e) = {}) => RTMarks(G1j, Dec) = ""

(* C10: encoding the decoded SMILES again reproduces the same SELFIES *)
Reencoded == ERun(EInit(LET lx == LexSmiles(Dec.out) IN [i \in 1..Len(lx.toks) |-> lx.toks[i].b \o lx.toks[i].txt],
                        TRUE, Strict))
ReencodeFixpoint == (e.pc = "done" /\ Len(e.outp) > 0) => (Reencoded.pc = "done" /\ Reencoded.outp = e.outp)

(* C06: strict rejection exactly for capacity violations; strict=False never rejects for that reason *)
StrictExact ==
  /\ (e.pc = "error" /\ e.why = "constraints") => (e.strict /\ Overfull(e) # {})
  /\ (e.pc \in {"chir", "emit", "done"} /\ e.strict) => Overfull(e) = {}
(* hence an accepted strict encoding decodes to the same molecule (SameAtoms / SameBonds above) *)

(* the slot-wise AroEdges is the pairwise definition *)
AroEdgesAgree == AroEdges(e.adj) = AroEdgesDef(e.adj) /\ AroEdges(e.p.adj) = AroEdgesDef(e.p.adj)

(* C09 (design side): only two terminal outcomes; termination is EncTerminates *)
TwoOutcomes == ETerminal(e) => EOutcome(e).kind \in {"ok", "EncoderError"}

EncVector == [inp |-> e.toks, kind |-> EOutcome(e).kind, out |-> EOutcome(e).value, why |-> e.why,
              dec |-> IF e.pc = "done" THEN Dec.out ELSE "", strict |-> e.strict]
EncEmit == ETerminal(e) => PrintT(ToJson(EncVector))
=====================================================================
