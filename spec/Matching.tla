------------------------------ MODULE Matching ------------------------------
(* The perfect-matching routine behind kekulisation (C05), modelled as the   *)
(* algorithm the implementation runs - not only its contract:                *)
(*                                                                           *)
(*   find_perfect_matching(graph)                                            *)
(*     greedy     - pop the node with the fewest unmatched neighbours from a *)
(*                  priority queue of (free degree, node) pairs and match it *)
(*                  with its first unmatched neighbour     (one action / pop)*)
(*     pick       - take SOME unmatched node as root (set.pop(): any order)  *)
(*     bfs        - alternating breadth-first tree from the root with odd    *)
(*                  cycles (blossoms) contracted           (one action / node)*)
(*     augment    - flip the augmenting path, or give up: no perfect matching*)
(*                                                                           *)
(* Nodes are 1..n here (0..n-1 in the code); 0 stands for None.  The graph   *)
(* is a sequence of adjacency sequences: the ORDER of each adjacency list is *)
(* part of the state because greedy and BFS both follow it.                  *)
(*                                                                           *)
(* Design-level claims TLC checks for every graph within the bounds, every   *)
(* adjacency order (Orders = "all") and every order of picking roots:        *)
(*   MatchingValid   the partial matching is symmetric and uses graph edges  *)
(*   DegreesExact    free_degrees[i] = number of unmatched neighbours        *)
(*   GreedyMaximal   after greedy no edge has two unmatched ends             *)
(*   PathAugments    every path handed to the flip is a simple alternating   *)
(*                   path between two unmatched nodes                        *)
(*   TreeSound       bases / parents stay inside the tree, bases are fixed   *)
(*                   points                                                  *)
(*   Complete        "none" is returned only if no perfect matching exists   *)
(*   Perfect         a returned matching is perfect                          *)
(*   Terminates      (liveness) every run ends                               *)
(* The single-record style (m, Kind, Step) follows Decoder / Encoder so that *)
(* TraceMatch can reuse the same functions on recorded executions.           *)
EXTENDS Integers, Sequences, FiniteSets, TLC, MatchParams
(* MatchParams (generated): MParts / MMaxDeg / MOrders (bounds), MTr (trace),  *)
(* MNoContract - the negative configuration: odd cycles are NOT contracted,  *)
(* which is the algorithm before the blossom repair; TLC must then refute    *)
(* PathAugments / Complete - evidence that the model can see that bug class. *)

None == 0

MinOf(S) == CHOOSE x \in S : \A y \in S : x <= y
Range(s) == {s[i] : i \in 1..Len(s)}

(* ------------------------------------------------------------------------ *)
(* graphs                                                                    *)
(* ------------------------------------------------------------------------ *)
NodesOf(g) == 1..Len(g)
IsEdge(g, a, b) == b \in Range(g[a])
WellFormedGraph(g) ==
  /\ \A a \in NodesOf(g) : \A k \in 1..Len(g[a]) : g[a][k] \in NodesOf(g) /\ g[a][k] # a
  /\ \A a \in NodesOf(g) : \A k, l \in 1..Len(g[a]) : k # l => g[a][k] # g[a][l]
  /\ \A a, b \in NodesOf(g) : IsEdge(g, a, b) <=> IsEdge(g, b, a)

(* brute force: does the graph restricted to the node set S have a perfect matching *)
RECURSIVE HasPM(_, _)
HasPM(g, S) ==
  IF S = {} THEN TRUE
  ELSE LET a == MinOf(S)
       IN \E b \in (Range(g[a]) \cap S) \ {a} : HasPM(g, S \ {a, b})

(* ------------------------------------------------------------------------ *)
(* greedy phase                                                              *)
(* ------------------------------------------------------------------------ *)
PairLess(a, b) == a[1] < b[1] \/ (a[1] = b[1] /\ a[2] < b[2])
MinPair(S) == CHOOSE a \in S : \A b \in S : a = b \/ PairLess(a, b)
FirstFree(adj, mt) == adj[MinOf({k \in 1..Len(adj) : mt[adj[k]] = None})]

(* for adj in chain(graph[node], graph[mate]): fd[adj] -= 1; push if still matchable *)
RECURSIVE FoldChain(_, _, _, _, _)
FoldChain(chain, k, fd, pq, mt) ==
  IF k > Len(chain) THEN [fd |-> fd, pq |-> pq]
  ELSE LET a == chain[k]
           fd1 == [fd EXCEPT ![a] = @ - 1]
           pq1 == IF mt[a] = None /\ fd1[a] > 0 THEN pq \cup {<<fd1[a], a>>} ELSE pq
       IN FoldChain(chain, k + 1, fd1, pq1, mt)

InitM(g) ==
  [pc |-> "greedy", g |-> g,
   mt |-> [i \in NodesOf(g) |-> None],
   fd |-> [i \in NodesOf(g) |-> Len(g[i])],
   pq |-> {<<Len(g[i]), i>> : i \in NodesOf(g)},
   un |-> {}, root |-> None,
   parents |-> [i \in NodesOf(g) |-> None], bases |-> [i \in NodesOf(g) |-> i],
   intree |-> {}, queue |-> <<>>, other |-> None,
   path |-> <<>>, res |-> "", pops |-> 0, augs |-> 0, contr |-> 0]

DoGreedyPop(m) ==
  LET top == MinPair(m.pq)
      node == top[2]
      rest == m.pq \ {top}
  IN IF m.mt[node] # None \/ m.fd[node] = 0
     THEN [m EXCEPT !.pq = rest, !.pops = @ + 1]
     ELSE LET mate == FirstFree(m.g[node], m.mt)
              mt1 == [m.mt EXCEPT ![node] = mate, ![mate] = node]
              upd == FoldChain(m.g[node] \o m.g[mate], 1, m.fd, rest, mt1)
          IN [m EXCEPT !.mt = mt1, !.fd = upd.fd, !.pq = upd.pq, !.pops = @ + 1]

DoGreedyDone(m) == [m EXCEPT !.pc = "pick", !.un = {i \in NodesOf(m.g) : m.mt[i] = None}]

(* ------------------------------------------------------------------------ *)
(* augmenting-path search                                                    *)
(* ------------------------------------------------------------------------ *)
DoPick(m, r) ==
  [m EXCEPT !.pc = "bfs", !.un = @ \ {r}, !.root = r,
            !.parents = [i \in NodesOf(m.g) |-> None],
            !.bases = [i \in NodesOf(m.g) |-> i],
            !.intree = {r}, !.queue = <<r>>, !.other = None, !.path = <<>>]

(* find_common_base: walk from a to the root marking bases, then from b until a marked one *)
RECURSIVE SeenFrom(_, _, _)
SeenFrom(m, a, seen) ==
  LET a1 == m.bases[a] IN
  IF m.mt[a1] = None THEN seen \cup {a1}
  ELSE SeenFrom(m, m.parents[m.mt[a1]], seen \cup {a1})

RECURSIVE FirstSeen(_, _, _)
FirstSeen(m, b, seen) ==
  LET b1 == m.bases[b] IN
  IF b1 \in seen THEN b1 ELSE FirstSeen(m, m.parents[m.mt[b1]], seen)

CommonBase(m, a, b) == FirstSeen(m, b, SeenFrom(m, a, {}))

(* mark_blossom: climbs from node to the base, re-pointing parents the other way round *)
RECURSIVE Mark(_, _, _, _, _, _)
Mark(m, node, base, child, parents, inb) ==
  IF m.bases[node] = base THEN [parents |-> parents, inb |-> inb]
  ELSE LET p1 == [parents EXCEPT ![node] = child]
       IN Mark(m, p1[m.mt[node]], base, m.mt[node], p1,
               inb \cup {m.bases[node], m.bases[m.mt[node]]})

RECURSIVE AppendAll(_, _)
AppendAll(q, S) == IF S = {} THEN q ELSE AppendAll(Append(q, MinOf(S)), S \ {MinOf(S)})

Contract(m, node, adj) ==
  LET base == CommonBase(m, node, adj)
      m1 == Mark(m, node, base, adj, m.parents, {})
      m2 == Mark(m, adj, base, node, m1.parents, m1.inb)
      moved == {i \in NodesOf(m.g) : m.bases[i] \in m2.inb}
      fresh == moved \ m.intree
  IN [m EXCEPT !.parents = m2.parents,
               !.bases = [i \in NodesOf(m.g) |-> IF i \in moved THEN base ELSE m.bases[i]],
               !.intree = @ \cup fresh,
               !.queue = AppendAll(@, fresh), !.contr = @ + 1]

(* for adj in graph[node]: ... (break once the other end is found) *)
RECURSIVE Scan(_, _, _)
Scan(m, node, k) ==
  IF k > Len(m.g[node]) \/ m.other # None THEN m
  ELSE LET adj == m.g[node][k] IN
       IF m.bases[node] = m.bases[adj] \/ m.mt[node] = adj THEN Scan(m, node, k + 1)
       ELSE IF adj = m.root \/ (m.mt[adj] # None /\ m.parents[m.mt[adj]] # None)
            THEN Scan(IF MNoContract THEN m ELSE Contract(m, node, adj), node, k + 1)
       ELSE IF m.parents[adj] = None
            THEN IF m.mt[adj] = None
                 THEN [m EXCEPT !.parents[adj] = node, !.other = adj]
                 ELSE Scan([m EXCEPT !.parents[adj] = node, !.intree = @ \cup {m.mt[adj]},
                                     !.queue = Append(@, m.mt[adj])], node, k + 1)
       ELSE Scan(m, node, k + 1)

DoBfsNode(m) == Scan([m EXCEPT !.queue = Tail(@)], Head(m.queue), 1)

(* path = [other_end, parent, mate(parent), parent, ..., root]; fuel guards a cyclic walk *)
RECURSIVE PathFrom(_, _, _)
PathFrom(m, node, fuel) ==
  IF node = None THEN <<>>
  ELSE IF fuel = 0 THEN <<None>>
  ELSE <<node, m.parents[node]>> \o PathFrom(m, m.mt[m.parents[node]], fuel - 1)

RECURSIVE Flip(_, _, _)
Flip(mt, path, i) ==
  IF i + 1 > Len(path) THEN mt
  ELSE Flip([mt EXCEPT ![path[i]] = path[i + 1], ![path[i + 1]] = path[i]], path, i + 2)

DoBfsEnd(m) ==
  IF m.other = None THEN [m EXCEPT !.pc = "done", !.res = "none"]
  ELSE LET path == PathFrom(m, m.other, Len(m.g) + 1)
       IN [m EXCEPT !.pc = "pick", !.path = path, !.mt = Flip(m.mt, path, 1),
                    !.un = (@ \ {path[1]}) \ {path[Len(path)]}, !.augs = @ + 1]

DoReturn(m) == [m EXCEPT !.pc = "done", !.res = "matched"]

(* ------------------------------------------------------------------------ *)
(* dispatcher                                                                *)
(* ------------------------------------------------------------------------ *)
Kind(m) ==
  CASE m.pc = "greedy" /\ m.pq # {} -> "GreedyPop"
    [] m.pc = "greedy" /\ m.pq = {} -> "GreedyDone"
    [] m.pc = "pick" /\ m.un # {} -> "Pick"
    [] m.pc = "pick" /\ m.un = {} -> "Return"
    [] m.pc = "bfs" /\ m.queue # <<>> /\ m.other = None -> "BfsNode"
    [] m.pc = "bfs" -> "BfsEnd"
    [] OTHER -> "Done"

(* deterministic part of a step (everything except the choice of the root) *)
StepDet(m) ==
  CASE Kind(m) = "GreedyPop" -> DoGreedyPop(m)
    [] Kind(m) = "GreedyDone" -> DoGreedyDone(m)
    [] Kind(m) = "Return" -> DoReturn(m)
    [] Kind(m) = "BfsNode" -> DoBfsNode(m)
    [] Kind(m) = "BfsEnd" -> DoBfsEnd(m)
    [] OTHER -> m

(* run-to-completion forms used by the trace specification *)
RECURSIVE RunGreedy(_)
RunGreedy(m) == IF m.pc = "greedy" THEN RunGreedy(StepDet(m)) ELSE m
RECURSIVE RunBfs(_)
RunBfs(m) == IF m.pc = "bfs" THEN RunBfs(StepDet(m)) ELSE m

(* deterministic completion of the model from a state: always the smallest unmatched root *)
RECURSIVE Finish(_)
Finish(mm) ==
  IF mm.pc = "done" THEN mm
  ELSE IF Kind(mm) = "Pick" THEN Finish(DoPick(mm, MinOf(mm.un)))
  ELSE Finish(StepDet(mm))

(* ------------------------------------------------------------------------ *)
(* clauses (pure, so that TraceMatch can evaluate them on its own states)    *)
(* ------------------------------------------------------------------------ *)
MatchingValidC(m) ==
  \A i \in NodesOf(m.g) :
     m.mt[i] # None => /\ m.mt[i] \in NodesOf(m.g) /\ m.mt[m.mt[i]] = i /\ IsEdge(m.g, i, m.mt[i])

DegreesExactC(m) ==
  m.pc = "greedy" =>
     \A i \in NodesOf(m.g) : m.fd[i] = Cardinality({k \in 1..Len(m.g[i]) : m.mt[m.g[i][k]] = None})

GreedyMaximalC(m) ==
  (m.pc = "pick" /\ m.augs = 0) =>
     \A a \in NodesOf(m.g) : m.mt[a] = None => \A b \in Range(m.g[a]) : m.mt[b] # None
IsSimple(p) == \A i, j \in 1..Len(p) : i # j => p[i] # p[j]

(* evaluated on the state BEFORE the flip: path against the matching it augments *)
PathAugmentsC(m, path) ==
  /\ Len(path) >= 2 /\ Len(path) % 2 = 0
  /\ \A i \in 1..Len(path) : path[i] \in NodesOf(m.g)
  /\ IsSimple(path)
  /\ m.mt[path[1]] = None /\ m.mt[path[Len(path)]] = None /\ path[Len(path)] = m.root
  /\ \A i \in 1..Len(path) \div 2 : IsEdge(m.g, path[2 * i - 1], path[2 * i]) /\ m.mt[path[2 * i - 1]] # path[2 * i]
  /\ \A i \in 1..(Len(path) \div 2 - 1) : m.mt[path[2 * i]] = path[2 * i + 1]

TreeSoundC(m) ==
  m.pc = "bfs" =>
    /\ \A i \in NodesOf(m.g) : m.bases[m.bases[i]] = m.bases[i]
    /\ m.root \in m.intree /\ m.bases[m.root] = m.root
    /\ \A i \in NodesOf(m.g) : m.parents[i] # None => IsEdge(m.g, i, m.parents[i])
    /\ \A i \in m.intree : i = m.root \/ m.mt[i] # None
    /\ \A k \in 1..Len(m.queue) : m.queue[k] \in m.intree

SizeOf(m) == Cardinality({i \in NodesOf(m.g) : m.mt[i] # None})

CompleteC(m) == m.res = "none" => ~HasPM(m.g, NodesOf(m.g))
PerfectC(m) == m.res = "matched" => (\A i \in NodesOf(m.g) : m.mt[i] # None) /\ MatchingValidC(m)

=============================================================================
