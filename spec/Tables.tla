---------------------------- MODULE Tables ----------------------------
(* The data tables of the SELFIES grammar, written from the documentation   *)
(* (docs/source/derivation.rst, the README table of presets, CHANGELOG v2)  *)
(* and not read from the code.  harness/impl_tables.py extracts the code's  *)
(* tables into ImplTables.tla and TLC checks them equal to these.           *)
EXTENDS Integers, Sequences, TLC

ELEMENTS == {
    "H", "He", "Li", "Be", "B", "C", "N", "O", "F", "Ne", "Na", "Mg",
    "Al", "Si", "P", "S", "Cl", "Ar", "K", "Ca", "Sc", "Ti", "V", "Cr",
    "Mn", "Fe", "Co", "Ni", "Cu", "Zn", "Ga", "Ge", "As", "Se", "Br",
    "Kr", "Rb", "Sr", "Y", "Zr", "Nb", "Mo", "Tc", "Ru", "Rh", "Pd",
    "Ag", "Cd", "In", "Sn", "Sb", "Te", "I", "Xe", "Cs", "Ba", "Hf",
    "Ta", "W", "Re", "Os", "Ir", "Pt", "Au", "Hg", "Tl", "Pb", "Bi",
    "Po", "At", "Rn", "Fr", "Ra", "Rf", "Db", "Sg", "Bh", "Hs", "Mt",
    "Ds", "Rg", "Cn", "Fl", "Lv", "La", "Ce", "Pr", "Nd", "Pm", "Sm",
    "Eu", "Gd", "Tb", "Dy", "Ho", "Er", "Tm", "Yb", "Lu", "Ac", "Th",
    "Pa", "U", "Np", "Pu", "Am", "Cm", "Bk", "Cf", "Es", "Fm", "Md",
    "No", "Lr" }

ORGANIC == {"B", "C", "N", "O", "S", "P", "F", "Cl", "Br", "I"}

(* aromatic elements and the valences an aromatic atom of that element may *)
(* show (OpenSMILES aromaticity model as used by the library)              *)
AROMATIC_ELEMENTS == {"B", "Al", "C", "Si", "N", "P", "As", "O", "S", "Se", "Te"}
AroValences(e) ==
  CASE e \in {"B", "Al"}          -> {3}
    [] e \in {"C", "Si"}          -> {4}
    [] e \in {"N", "P", "As"}     -> {3, 5}
    [] e \in {"O", "S", "Se", "Te"} -> {2, 4}
    [] OTHER -> {}
ValenceElectrons(e) ==
  CASE e \in {"B", "Al"} -> 3 [] e \in {"C", "Si"} -> 4
    [] e \in {"N", "P", "As"} -> 5 [] e \in {"O", "S", "Se", "Te"} -> 6 [] OTHER -> 0
AroLower(e) ==   \* SMILES spelling of the aromatic element
  CASE e = "B" -> "b" [] e = "Al" -> "al" [] e = "C" -> "c" [] e = "Si" -> "si"
    [] e = "N" -> "n" [] e = "P" -> "p" [] e = "As" -> "as" [] e = "O" -> "o"
    [] e = "S" -> "s" [] e = "Se" -> "se" [] e = "Te" -> "te" [] OTHER -> ""
AROMATIC_SUBSET == {AroLower(e) : e \in AROMATIC_ELEMENTS}

(* the sixteen index symbols in documented order: position - 1 = digit value *)
INDEX_ALPHABET == <<
    "[C]", "[Ring1]", "[Ring2]",
    "[Branch1]", "[=Branch1]", "[#Branch1]",
    "[Branch2]", "[=Branch2]", "[#Branch2]",
    "[O]", "[N]", "[=N]", "[=C]", "[#C]", "[S]", "[P]" >>

(* constraint tables: functions from keys to capacities *)
DefaultTable ==
     ("H" :> 1) @@ ("F" :> 1) @@ ("Cl" :> 1) @@ ("Br" :> 1) @@ ("I" :> 1)
  @@ ("B" :> 3) @@ ("B+1" :> 2) @@ ("B-1" :> 4)
  @@ ("O" :> 2) @@ ("O+1" :> 3) @@ ("O-1" :> 1)
  @@ ("N" :> 3) @@ ("N+1" :> 4) @@ ("N-1" :> 2)
  @@ ("C" :> 4) @@ ("C+1" :> 3) @@ ("C-1" :> 3)
  @@ ("P" :> 5) @@ ("P+1" :> 4) @@ ("P-1" :> 6)
  @@ ("S" :> 6) @@ ("S+1" :> 5) @@ ("S-1" :> 5)
  @@ ("?" :> 8)

(* f ++ g : g overrides f (note @@ prefers its LEFT argument) *)
Override(f, g) == g @@ f

OctetTable ==
  Override(DefaultTable,
     ("S" :> 2) @@ ("S+1" :> 3) @@ ("S-1" :> 1) @@ ("P" :> 3) @@ ("P+1" :> 4) @@ ("P-1" :> 2))
HypervalentTable ==
  Override(DefaultTable, ("Cl" :> 7) @@ ("Br" :> 7) @@ ("I" :> 7) @@ ("N" :> 5))

PresetNames == {"default", "octet_rule", "hypervalent"}
Preset(name) == CASE name = "default" -> DefaultTable
                  [] name = "octet_rule" -> OctetTable
                  [] name = "hypervalent" -> HypervalentTable
=====================================================================
