--------------------------- MODULE ConstChecks ---------------------------
(* Constant-level obligations, evaluated by TLC as ASSUMEs (no state space). *)
EXTENDS Constraints, SmilesReader

(* C16: base-16 positional code over the sixteen index symbols *)
IndexRoundTrip ==
  \A n \in 0..4095 :
     LET s == IndexSymbols(n)
     IN /\ IndexValue(s) = n
        /\ Len(s) <= 3
        /\ \A i \in 1..Len(s) : s[i] \in IndexSymbolSet
        /\ (Len(s) > 1 => s[1] # INDEX_ALPHABET[1])                 \* shortest: no leading zero digit
        /\ (n < 16 <=> Len(s) = 1) /\ (n < 256 <=> Len(s) <= 2)
IndexDigits == \A i \in 1..16 : IndexCode(INDEX_ALPHABET[i]) = i - 1
IndexDistinct == Cardinality(IndexSymbolSet) = 16
NonIndexIsZero ==
  \A x \in {"[F]", "[=Ring1]", "[#Branch3]", "[epsilon]", "[nop]", "[Foo]", "[=O]", "[N+1]"} : IndexCode(x) = 0
IndexPositional ==
  LET D == IndexSymbolSet \cup {"[F]", "[=Ring1]"}
  IN \A a \in D, b \in D, c \in D :
        IndexValue(<<a, b, c>>) = 256 * IndexCode(a) + 16 * IndexCode(b) + IndexCode(c)

(* C18: modern symbols are fixed points of Modernize *)
ModernDomain == RobustAlphabet(DefaultTable) \cup RobustAlphabet(HypervalentTable) \cup AllRingSet
                \cup {"[epsilon]", "[nop]", "[C@@H1]", "[13CH3]", "[Fe+2]", "[/C]", "[\\N+1]", "[=O+1]", "[CH0]", "[OH1-1]"}
ModernFixpoint == \A s \in ModernDomain : Modernize(s) = s
ModernClassified == \A s \in ModernDomain \ {"[nop]"} : Classify(s).k \in {"atom", "branch", "ring", "eps"}
LegacyTable ==
  /\ \A L \in {"1", "2", "3"} :
       /\ Modernize("[Branch" \o L \o "_1]") = "[Branch" \o L \o "]"
       /\ Modernize("[Branch" \o L \o "_2]") = "[=Branch" \o L \o "]"
       /\ Modernize("[Branch" \o L \o "_3]") = "[#Branch" \o L \o "]"
       /\ Modernize("[Expl=Ring" \o L \o "]") = "[=Ring" \o L \o "]"
       /\ Modernize("[Expl#Ring" \o L \o "]") = "[#Ring" \o L \o "]"
       /\ Modernize("[Expl/Ring" \o L \o "]") = "[//Ring" \o L \o "]"
       /\ Modernize("[Expl\\Ring" \o L \o "]") = "[\\\\Ring" \o L \o "]"
  /\ Modernize("[C@@Hexpl]") = "[C@@H1]"
  /\ Modernize("[N+expl]") = "[N+1]"
  /\ Modernize("[=Fe++expl]") = "[=Fe+2]"
  /\ Modernize("[O-expl]") = "[O-1]"

(* C10: the two atom grammars agree - every atom of a finite domain, spelled *)
(* in the standard way, is read back to the same atom by the SELFIES symbol  *)
(* grammar and by the SMILES bracket-atom grammar                            *)
AtomDomain ==
  {MkAtom(el, iso, chi, h, chg, FALSE) :
      el \in {"C", "N", "Fe", "Cl", "H"}, iso \in {"", "0", "1", "13", "235"}, chi \in {"", "@", "@@"},
      h \in 0..9, chg \in {"", "+1", "-1", "+2", "-3", "+10", "-12", "+20", "+101"}}
SpellParseSelfies ==
  \A a \in AtomDomain, b \in {"", "=", "#", "/", "\\"} :
     LET c == ParseAtomSym("[" \o b \o SpellAtomBody(a) \o "]")
     IN c.k = "atom" /\ c.atom = a /\ c.order = BondOrder(b) /\ c.st = Stereo(b)
SpellParseSmiles ==
  \A a \in AtomDomain :
     LET r == ReadAtomTok(SpellSmilesAtom(a)) IN r.ok /\ r.atom = a
PlainAtoms ==
  \A e \in ORGANIC : /\ ParseAtomSym("[" \o e \o "]").atom = PlainAtom(e)
                     /\ ReadAtomTok(e).atom = PlainAtom(e) /\ SpellSmilesAtom(PlainAtom(e)) = e
(* every SMILES spelling of the same atom yields one standard symbol *)
Respell(tok) == SpellAtomBody(ParseBracketAtom(tok).atom)
Standardised ==
  /\ Respell("[N+]") = Respell("[N+1]") /\ Respell("[N+]") = "N+1"
  /\ Respell("[Fe++]") = Respell("[Fe+2]") /\ Respell("[Fe++]") = "Fe+2"
  /\ Respell("[CH]") = Respell("[CH1]") /\ Respell("[CH]") = "CH1"
  /\ Respell("[O--]") = "O-2" /\ Respell("[013CH3]") = "13CH3" /\ Respell("[C+0]") = "CH0"
  /\ Respell("[C@@H:12]") = "C@@H1" /\ Respell("[Fe+02]") = "Fe+2"

ASSUME IndexRoundTrip
ASSUME IndexDigits
ASSUME IndexDistinct
ASSUME NonIndexIsZero
ASSUME IndexPositional
ASSUME ModernFixpoint
ASSUME ModernClassified
ASSUME LegacyTable
ASSUME SpellParseSelfies
ASSUME SpellParseSmiles
ASSUME PlainAtoms
ASSUME Standardised

VARIABLE x
Init == x = 0
Next == UNCHANGED x
Spec == Init /\ [][Next]_x
=====================================================================
