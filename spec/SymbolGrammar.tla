------------------------- MODULE SymbolGrammar -------------------------
(* Character-level grammar of SELFIES symbols and of SMILES atom tokens.   *)
(* Sources: CHANGELOG v2.0.0 (symbol syntax), docs/source/derivation.rst   *)
(* (index alphabet, branch / ring symbols), OpenSMILES bracket atoms as    *)
(* restricted by the encoder docstring.  Nothing here reads the code.      *)
EXTENDS Text, Tables

(***************************************************************************)
(* Atoms.  iso: "" or canonical digit string.  chi: "" | "@" | "@@".       *)
(* h: -1 = unspecified (plain organic-subset atom, implicit hydrogens),    *)
(* otherwise the explicit hydrogen count 0..9.  chg: "" or sign followed   *)
(* by a canonical positive digit string ("+1", "-12"); kept as text.       *)
(***************************************************************************)
MkAtom(el, iso, chi, h, chg, aro) ==
  [el |-> el, iso |-> iso, chi |-> chi, h |-> h, chg |-> chg, aro |-> aro]
PlainAtom(el) == MkAtom(el, "", "", -1, "", FALSE)
NoAtom == MkAtom("", "", "", -1, "", FALSE)

BondChars == {"=", "#", "/", "\\"}
BondOrder(c) == CASE c = "=" -> 2 [] c = "#" -> 3 [] OTHER -> 1
Stereo(c) == IF c \in {"/", "\\"} THEN c ELSE ""

(* canonical charge text from sign and digit string (value 0 -> "") *)
CanonCharge(sign, digits) ==
  LET d == StripZeros(digits) IN IF d = "0" \/ d = "" THEN "" ELSE sign \o d

(* The standard spelling of an atom inside brackets (SMILES and SELFIES    *)
(* share it): isotope, element, chirality, H<n> when n # 0, charge with an *)
(* explicit number.  A bare organic-subset atom with explicitly zero H is  *)
(* written H0 so that it is not confused with the implicit-H atom.         *)
SpellAtomBody(a) ==
  IF a.iso = "" /\ a.chi = "" /\ a.h = -1 /\ a.chg = "" THEN a.el
  ELSE a.iso \o a.el \o a.chi
       \o (IF a.h > 0 THEN "H" \o ToString(a.h)
           ELSE IF a.h = 0 /\ a.iso = "" /\ a.chi = "" /\ a.chg = "" /\ a.el \in ORGANIC THEN "H0"
           ELSE "")
       \o a.chg
NeedsBrackets(a) == ~(a.iso = "" /\ a.chi = "" /\ a.h = -1 /\ a.chg = "")
SpellSmilesAtom(a) == IF NeedsBrackets(a) THEN "[" \o SpellAtomBody(a) \o "]" ELSE a.el

(***************************************************************************)
(* SELFIES symbols                                                         *)
(***************************************************************************)
Bracketed(sym) == Len(sym) >= 2 /\ Ch(sym, 1) = "[" /\ Ch(sym, Len(sym)) = "]"
Inner(sym) == Slice(sym, 2, Len(sym) - 1)

BadSym == [k |-> "bad"]

(* [Branch<L>], [=Branch<L>], [#Branch<L>],  L in 1..3 *)
ParseBranch(sym) ==
  LET in == Inner(sym)
      b  == IF Len(in) >= 1 /\ Ch(in, 1) \in {"=", "#"} THEN Ch(in, 1) ELSE ""
      r  == From(in, Len(b) + 1)
  IN IF Len(r) = 7 /\ Slice(r, 1, 6) = "Branch" /\ Ch(r, 7) \in {"1", "2", "3"}
     THEN [k |-> "branch", order |-> BondOrder(b), n |-> DigitVal(Ch(r, 7))]
     ELSE BadSym

(* [Ring<L>], [=Ring<L>], [#Ring<L>] and the eight two-character stereo    *)
(* prefixes over {-, /, \} (all pairs except "--"), L in 1..3              *)
ParseRing(sym) ==
  LET in  == Inner(sym)
      k   == Len(in) - 5
      pre == Slice(in, 1, k)
      r   == From(in, k + 1)
      S   == {"-", "/", "\\"}
  IN IF k < 0 \/ Slice(r, 1, 4) # "Ring" \/ Ch(r, 5) \notin {"1", "2", "3"} THEN BadSym
     ELSE IF pre \in {"", "=", "#"}
          THEN [k |-> "ring", order |-> BondOrder(pre), n |-> DigitVal(Ch(r, 5)), ls |-> "", rs |-> ""]
     ELSE IF Len(pre) = 2 /\ Ch(pre, 1) \in S /\ Ch(pre, 2) \in S /\ pre # "--"
          THEN [k |-> "ring", order |-> 1, n |-> DigitVal(Ch(r, 5)),
                ls |-> Stereo(Ch(pre, 1)), rs |-> Stereo(Ch(pre, 2))]
     ELSE BadSym

(* atom symbol: [ bond? isotope? Element chirality? (H digit)? (sign nonzero-digit digit* )? ] *)
ParseAtomSym(sym) ==
  LET in   == Inner(sym)
      b    == IF Len(in) >= 1 /\ Ch(in, 1) \in BondChars THEN Ch(in, 1) ELSE ""
      body == From(in, Len(b) + 1)
  IN IF body \in ORGANIC
     THEN [k |-> "atom", order |-> BondOrder(b), st |-> Stereo(b), atom |-> PlainAtom(body)]
     ELSE
     LET ni   == SpanFrom(body, 1, Digits)
         iso  == Slice(body, 1, ni)
         p1   == ni + 1
         okU  == p1 <= Len(body) /\ IsUpper(Ch(body, p1))
         el   == IF ~okU THEN ""
                 ELSE IF p1 + 1 <= Len(body) /\ IsLower(Ch(body, p1 + 1))
                      THEN Slice(body, p1, p1 + 1) ELSE Ch(body, p1)
         p2   == p1 + Len(el)
         nchi == Min(SpanFrom(body, p2, {"@"}), 2)
         chi  == Slice(body, p2, p2 + nchi - 1)
         p3   == p2 + nchi
         hasH == p3 + 1 <= Len(body) /\ Ch(body, p3) = "H" /\ IsDigit(Ch(body, p3 + 1))
         h    == IF hasH THEN DigitVal(Ch(body, p3 + 1)) ELSE 0
         p4   == IF hasH THEN p3 + 2 ELSE p3
         rest == From(body, p4)
         okC  == \/ rest = ""
                 \/ /\ Len(rest) >= 2 /\ Ch(rest, 1) \in {"+", "-"}
                    /\ Ch(rest, 2) \in (Digits \ {"0"}) /\ AllIn(From(rest, 3), Digits)
     IN IF okU /\ el \in ELEMENTS /\ okC
        THEN [k |-> "atom", order |-> BondOrder(b), st |-> Stereo(b),
              atom |-> MkAtom(el, IF iso = "" THEN "" ELSE StripZeros(iso), chi, h, rest, FALSE)]
        ELSE BadSym

(* Does the text contain "eps" ?  (look-alikes of [epsilon], see Classify) *)
HasEps(sym) == \E i \in 1..(Len(sym) - 2) : Slice(sym, i, i + 2) = "eps"

(* Classification of one symbol.  "fuzzy" marks the one place where the    *)
(* documentation is silent and the property does not decide: a symbol that *)
(* is not [epsilon] but contains "eps" (the library reads it as epsilon; a *)
(* stricter reading rejects it); both outcomes are accepted there.         *)
Classify(sym) ==
  IF ~Bracketed(sym) THEN BadSym
  ELSE LET br == ParseBranch(sym)  rg == ParseRing(sym)  at == ParseAtomSym(sym)
       IN IF br.k = "branch" THEN br
          ELSE IF rg.k = "ring" THEN rg
          ELSE IF sym = "[epsilon]" THEN [k |-> "eps"]
          ELSE IF at.k = "atom" THEN at
          ELSE IF HasEps(sym) THEN [k |-> "fuzzy"]
          ELSE BadSym

(***************************************************************************)
(* Index symbols: base-16 positional code                                  *)
(***************************************************************************)
IndexCode(sym) ==
  IF \E i \in 1..16 : INDEX_ALPHABET[i] = sym
  THEN (CHOOSE i \in 1..16 : INDEX_ALPHABET[i] = sym) - 1 ELSE 0

RECURSIVE IndexSymbols(_)
IndexSymbols(n) == IF n < 16 THEN <<INDEX_ALPHABET[n + 1]>>
                   ELSE IndexSymbols(n \div 16) \o <<INDEX_ALPHABET[(n % 16) + 1]>>

RECURSIVE IndexValue(_)
IndexValue(syms) == IF syms = <<>> THEN 0
                    ELSE 16 * IndexValue(SubSeq(syms, 1, Len(syms) - 1)) + IndexCode(syms[Len(syms)])

(***************************************************************************)
(* SMILES atom tokens (the spec's own reader)                              *)
(***************************************************************************)
(* [ isotope? element chirality? (H digit?)? charge? (:class)? ]           *)
ParseBracketAtom(tok) ==
  LET body == Inner(tok)
      ni   == SpanFrom(body, 1, Digits)
      iso  == Slice(body, 1, ni)
      p1   == ni + 1
      okA  == p1 <= Len(body) /\ IsAlpha(Ch(body, p1))
      raw  == IF ~okA THEN ""
              ELSE IF p1 + 1 <= Len(body) /\ IsLower(Ch(body, p1 + 1))
                   THEN Slice(body, p1, p1 + 1) ELSE Ch(body, p1)
      aro  == raw \in AROMATIC_SUBSET
      el   == IF raw = "" THEN "" ELSE UpperOf(Ch(raw, 1)) \o From(raw, 2)
      p2   == p1 + Len(raw)
      nchi == Min(SpanFrom(body, p2, {"@"}), 2)
      chi  == Slice(body, p2, p2 + nchi - 1)
      p3   == p2 + nchi
      hasH == p3 <= Len(body) /\ Ch(body, p3) = "H"
      hdig == hasH /\ p3 + 1 <= Len(body) /\ IsDigit(Ch(body, p3 + 1))
      h    == IF ~hasH THEN 0 ELSE IF hdig THEN DigitVal(Ch(body, p3 + 1)) ELSE 1
      p4   == IF ~hasH THEN p3 ELSE IF hdig THEN p3 + 2 ELSE p3 + 1
      (* charge: +++ | --- | sign digits *)
      sgn  == IF p4 <= Len(body) /\ Ch(body, p4) \in {"+", "-"} THEN Ch(body, p4) ELSE ""
      nsg  == IF sgn = "" THEN 0 ELSE SpanFrom(body, p4, {sgn})
      ndg  == IF sgn = "" THEN 0 ELSE SpanFrom(body, p4 + 1, Digits)
      useD == ndg > 0               \* "+2": one sign then digits
      chg  == IF sgn = "" THEN "" ELSE IF useD THEN CanonCharge(sgn, Slice(body, p4 + 1, p4 + ndg))
              ELSE CanonCharge(sgn, ToString(nsg))
      p5   == IF sgn = "" THEN p4 ELSE IF useD THEN p4 + 1 + ndg ELSE p4 + nsg
      rest == From(body, p5)
      okCl == rest = "" \/ (Len(rest) >= 2 /\ Ch(rest, 1) = ":" /\ AllIn(From(rest, 2), Digits))
  IN IF okA /\ el \in ELEMENTS /\ okCl
     THEN [ok |-> TRUE, atom |-> MkAtom(el, IF iso = "" THEN "" ELSE StripZeros(iso), chi, h, chg, aro)]
     ELSE [ok |-> FALSE, atom |-> NoAtom]

(***************************************************************************)
(* Pre-v2 symbols and their documented modern equivalents (CHANGELOG v2):  *)
(* [BranchL_M] -> [BranchL] / [=BranchL] / [#BranchL];  [Expl=RingL] ->    *)
(* [=RingL], [Expl#RingL] -> [#RingL], [Expl/RingL] -> [//RingL],          *)
(* [Expl\RingL] -> [\\RingL];  [<bond><atom>expl] -> the atom read as a SMILES *)
(* bracket atom and re-spelled in the standard way.                        *)
(***************************************************************************)
L123 == {"1", "2", "3"}
Modernize(sym) ==
  IF Len(sym) = 11 /\ Slice(sym, 1, 7) = "[Branch" /\ Ch(sym, 8) \in L123 /\ Ch(sym, 9) = "_"
     /\ Ch(sym, 10) \in L123 /\ Ch(sym, 11) = "]"
  THEN "[" \o (CASE Ch(sym, 10) = "1" -> "" [] Ch(sym, 10) = "2" -> "=" [] OTHER -> "#")
           \o "Branch" \o Ch(sym, 8) \o "]"
  ELSE IF Len(sym) = 12 /\ Slice(sym, 1, 5) = "[Expl" /\ Ch(sym, 6) \in BondChars
          /\ Slice(sym, 7, 10) = "Ring" /\ Ch(sym, 11) \in L123 /\ Ch(sym, 12) = "]"
  THEN "[" \o (IF Ch(sym, 6) \in {"/", "\\"} THEN Ch(sym, 6) \o Ch(sym, 6) ELSE Ch(sym, 6))
           \o "Ring" \o Ch(sym, 11) \o "]"
  ELSE IF Len(sym) >= 6 /\ Ch(sym, 1) = "[" /\ Slice(sym, Len(sym) - 4, Len(sym)) = "expl]"
  THEN LET b    == IF Ch(sym, 2) \in BondChars THEN Ch(sym, 2) ELSE ""
           body == Slice(sym, 2 + Len(b), Len(sym) - 5)
           pa   == ParseBracketAtom("[" \o body \o "]")
       IN IF pa.ok /\ ~pa.atom.aro THEN "[" \o b \o SpellAtomBody(pa.atom) \o "]" ELSE sym
  ELSE sym
=====================================================================
