---------------------------- MODULE DecParams ----------------------------
(* Default parameters of the decoder machine.  The harness shadows this      *)
(* module with a generated one per model (same names, other values).         *)
EXTENDS Tables
Table     == DefaultTable
Compat    == FALSE
MaxLabel  == 99
KnownSyms == {INDEX_ALPHABET[i] : i \in 1..16}
(* generation mode (DecodeCall) *)
Gen        == TRUE
Alphabet   == {"[C]", "[=C]", "[O]", "[Branch1]", "[Ring1]", "."}
MaxLen     == 3
Input      == <<>>
FirstSyms  == Alphabet
SecondSyms == Alphabet
AllowEmpty == TRUE
(* encoder (EncodeCall): strict flag; Alphabet then holds SMILES token texts *)
Strict == TRUE
(* text mode (DecodeText) *)
RawChars == {"[", "]", ".", "C"}
RawLen   == 4
RawFirst == RawChars
(* trace mode (TraceDec) *)
Tr == <<>>
=====================================================================
