------------------------------ MODULE Threads ------------------------------
(* Concurrent translation calls over the shared module-level symbol cache    *)
(* (C19).  Each thread runs one call = a sequence of atom symbols; for every *)
(* symbol it performs the micro-actions of the implementation's cache        *)
(* protocol:                                                                 *)
(*    Probe   - look the symbol up in the shared cache (hit / miss)           *)
(*    Store   - on a miss: compute the descriptor (thread-local work) and    *)
(*              store it; two threads may both miss and both store           *)
(*    Make    - build a FRESH atom from the descriptor and continue with      *)
(*              thread-local work up to the next probe                       *)
(* Everything else a call does is local to its own graph.  The design stores *)
(* table-independent descriptors (a factory), never an atom.  StoreInstance  *)
(* = TRUE is the negative configuration (an atom instance is cached): TLC    *)
(* must then report NoSharing violated - evidence that the model can see the *)
(* bug class.                                                                *)
EXTENDS Integers, Sequences, FiniteSets, TLC, Json, ThreadParams
(* ThreadParams (generated): Calls (sequence: one symbol sequence per        *)
(* thread), PreCached (symbols cached before the calls start), StoreInstance *)

T == 1..Len(Calls)
VARIABLES cache, th, nextId, sched
tvars == <<cache, th, nextId, sched>>

Desc(s) == [factory |-> s]          \* what the design caches: a recipe, no identity

ThInit == /\ cache = [s \in PreCached |-> IF StoreInstance THEN [inst |-> 0] ELSE Desc(s)]
          /\ th = [t \in T |-> [pc |-> IF Len(Calls[t]) = 0 THEN "done" ELSE "probe", i |-> 1, mine |-> <<>>, obs |-> <<>>]]
          /\ nextId = 1 /\ sched = <<>>

Sym(t) == Calls[t][th[t].i]

Probe(t) ==
  /\ th[t].pc = "probe"
  /\ LET hit == Sym(t) \in DOMAIN cache
     IN th' = [th EXCEPT ![t].pc = IF hit THEN "make" ELSE "store",
                         ![t].obs = Append(@, IF hit THEN "hit" ELSE "miss")]
  /\ sched' = Append(sched, <<t, "Probe">>) /\ UNCHANGED <<cache, nextId>>

Store(t) ==
  /\ th[t].pc = "store"
  /\ IF StoreInstance
     THEN /\ cache' = [s \in DOMAIN cache \cup {Sym(t)} |-> IF s = Sym(t) THEN [inst |-> nextId] ELSE cache[s]]
          /\ nextId' = nextId + 1
     ELSE /\ cache' = [s \in DOMAIN cache \cup {Sym(t)} |-> IF s = Sym(t) THEN Desc(s) ELSE cache[s]]
          /\ UNCHANGED nextId
  /\ th' = [th EXCEPT ![t].pc = "make"]
  /\ sched' = Append(sched, <<t, "Store">>)

Make(t) ==
  /\ th[t].pc = "make"
  /\ LET shared == StoreInstance /\ Sym(t) \in DOMAIN cache
         id == IF shared THEN cache[Sym(t)].inst ELSE nextId
         last == th[t].i = Len(Calls[t])
     IN /\ th' = [th EXCEPT ![t].mine = Append(@, id), ![t].i = @ + 1, ![t].pc = IF last THEN "done" ELSE "probe"]
        /\ nextId' = IF shared THEN nextId ELSE nextId + 1
  /\ sched' = Append(sched, <<t, "Make">>) /\ UNCHANGED cache

ThNext == \E t \in T : Probe(t) \/ Store(t) \/ Make(t)
ThSpec == ThInit /\ [][ThNext]_tvars
ThFair == ThSpec /\ \A t \in T : WF_tvars(Probe(t) \/ Store(t) \/ Make(t))

AllDone == \A t \in T : th[t].pc = "done"

(* no call observes atoms of another call (nor one atom twice) *)
Ids(t) == {th[t].mine[k] : k \in 1..Len(th[t].mine)}
NoSharing == /\ \A a, b \in T : a # b => Ids(a) \cap Ids(b) = {}
             /\ \A t \in T : Cardinality(Ids(t)) = Len(th[t].mine)
(* a stored descriptor is never replaced by a different value *)
CacheMonotone == [][\A s \in DOMAIN cache : s \in DOMAIN cache' /\ cache'[s] = cache[s]]_tvars
(* every finished call built exactly one atom per symbol, in order: the serial result *)
ResultSerial == \A t \in T : th[t].pc = "done" => Len(th[t].mine) = Len(Calls[t]) /\ Len(th[t].obs) = Len(Calls[t])
(* the cache only ever holds recipes *)
OnlyRecipes == ~StoreInstance => \A s \in DOMAIN cache : cache[s] = Desc(s)
EveryCallFinishes == <>AllDone

ThVector == [sched |-> sched, obs |-> [t \in T |-> th[t].obs]]
ThEmit == AllDone => PrintT(ToJson(ThVector))
ThView == <<cache, th, nextId>>
=====================================================================
