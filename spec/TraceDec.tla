---------------------------- MODULE TraceDec ----------------------------
(* Trace validation of recorded selfies.decoder calls (RECORD -> TRACE).    *)
(* The trace (Tr, a JSON file written by the harness) is a list of records             *)
(*    [inp |-> <<tokens>>, kind |-> "ok" | "DecoderError" | <other>,        *)
(*     out |-> <returned SMILES>]                                           *)
(* all recorded under the constants Table / Compat of this run.  For every  *)
(* record the machine of module Decoder is run on the logged input as       *)
(* silent steps; the C01 clauses are evaluated in every state it passes     *)
(* through; at the terminal state the logged outcome is judged:             *)
(*   exact     - same kind and the very same string;                        *)
(*   semantic  - a different spelling that the specification's own reader   *)
(*               reads back to the same molecule (atoms in order, bonded    *)
(*               pairs and orders, marks per bond end, written neighbour    *)
(*               order);                                                    *)
(*   otherwise the failing clause is named.  Verdicts are total: a failing  *)
(* record is reported and validation continues with the next one.           *)
EXTENDS Decoder, SmilesReader, SelfiesLexer, Json
(* DecParams (written by the harness) defines  Tr == JsonDeserialize(       *)
(* IOEnv.TRACE_FILE)  - a constant definition, read once - and KnownSyms as *)
(* the symbols occurring in it.                                             *)
N  == Len(Tr)

VARIABLES d, tid, nbad
vars == <<d, tid, nbad>>

(* A record may carry raw text instead of tokens (C08): it is scanned by the  *)
(* specification's lexer; a hanging '[' is a DecoderError.  Outside the       *)
(* well-formed region only the outcome kind is judged (totality).             *)
IsRaw(i)    == "raw" \in DOMAIN Tr[i]
ScanOf(i)   == Scan(Tr[i].raw)
TokensOf(i) == IF IsRaw(i) THEN (IF ScanOf(i).ok THEN ScanOf(i).toks ELSE <<>>) ELSE Tr[i].inp
StartState(i) ==
  IF IsRaw(i) /\ ~ScanOf(i).ok THEN [InitState(<<>>, TRUE) EXCEPT !.pc = "error"]
  ELSE InitState(TokensOf(i), TRUE)
Precise(i)  == ~IsRaw(i) \/ WellFormed(Tr[i].raw)

Init == /\ tid = 1 /\ nbad = 0
        /\ d = IF N >= 1 THEN StartState(1) ELSE [InitState(<<>>, TRUE) EXCEPT !.pc = "done"]

DecMarks(dd) ==
  UNION {LET b == dd.bonds[j] IN
           IF b.order # 1 THEN {}
           ELSE (IF b.ls # "" THEN {<<b.src, b.dst, b.ls>>} ELSE {})
                \cup (IF b.ring /\ b.rs # "" THEN {<<b.dst, b.src, b.rs>>} ELSE {}) : j \in 1..Len(dd.bonds)}

(* which clause of "the implementation's SMILES denotes the specification's molecule" fails *)
SemanticClause(dd, smi) ==
  IF Len(dd.atoms) = 0 THEN (IF smi = "" THEN "" ELSE "nonempty output for empty molecule")
  ELSE LET g == ReadSmilesX(smi, TRUE)
       IN IF ~g.ok THEN "output is not well-formed SMILES"
          ELSE IF Len(g.atoms) # Len(dd.atoms) THEN "atom count"
          ELSE IF \E i \in 1..Len(dd.atoms) : CoreAtom(g.atoms[i]) # CoreAtom(dd.atoms[i].atom) \/ g.atoms[i].aro
               THEN "atom fields"
          ELSE IF BondSet(g.adj) # {<<dd.bonds[j].src, dd.bonds[j].dst, dd.bonds[j].order>> : j \in 1..Len(dd.bonds)}
               THEN "bonded pairs / orders"
          ELSE IF MarkSet(g.adj) # DecMarks(dd) THEN "stereo marks"
          ELSE IF \E i \in 1..Len(dd.atoms) :
                    OutOrder(g.adj, i) # [k \in 1..Len(Adj(dd, i)) |-> Other(dd.bonds[Adj(dd, i)[k]], i)]
               THEN "written neighbour order"
          ELSE ""

Verdict(dd, rec) ==
  IF rec.kind \notin {"ok", "DecoderError"} THEN "exception type " \o rec.kind
  ELSE IF dd.pc = "error"
       THEN IF rec.kind = "DecoderError" THEN "" ELSE "accepted a string the grammar rejects"
  ELSE IF rec.kind = "DecoderError"
       THEN IF dd.fuzzy THEN "" ELSE "rejected a string the grammar accepts"
  ELSE IF rec.out = dd.out THEN ""
  ELSE IF LabelOverflow(dd) THEN "" \* no legal SMILES exists; nothing to compare
  ELSE SemanticClause(dd, rec.out)

(***************************************************************************)
(* C17: clauses about a logged attribution list (records with field attr:  *)
(* entries [idx, tok, has, att], att = list of [i, sym]); judged only when *)
(* the returned string is the specification's string.                      *)
(***************************************************************************)
InputSyms(dd) == LET S == SelectSeq(dd.inp, LAMBDA t : t # "[nop]" /\ t # ".")
                 IN [i \in 1..Len(S) |-> SymOf(dd, S[i])]
AttrClause(dd, rec) ==
  LET A == rec.attr
      Syms == InputSyms(dd)
  IN IF \E k \in 1..Len(A) :
          LET e == A[k] L == Len(e.tok)
          IN ~(e.idx - L + 1 >= 0 /\ e.idx + 1 <= Len(rec.out) /\ Slice(rec.out, e.idx - L + 2, e.idx + 1) = e.tok)
     THEN "an output token is not at its reported character index"
     ELSE IF \E k \in 1..Len(A) : A[k].has /\ \E m \in 1..Len(A[k].att) :
               LET a == A[k].att[m] IN ~(a.i >= 0 /\ a.i + 1 <= Len(Syms) /\ Syms[a.i + 1] = a.sym)
     THEN "a contributing input token is not the symbol at its reported position"
     ELSE IF \E n \in 1..Len(dd.otok) :
               LET o == dd.otok[n]
               IN ~\E k \in 1..Len(A) :
                     /\ A[k].idx = o.end - 1 /\ A[k].tok = o.tok /\ A[k].has
                     /\ {<<A[k].att[m].i, A[k].att[m].sym>> : m \in 1..Len(A[k].att)}
                           = {<<dd.atoms[o.atom].attr[m].idx, dd.atoms[o.atom].attr[m].sym>> : m \in 1..Len(dd.atoms[o.atom].attr)}
     THEN "an output atom is not attributed to its creating symbol and enclosing branch symbols"
     ELSE ""

StepAct ==
  /\ tid <= N /\ ~Terminal(d)
  /\ d' = Step(d)
  /\ LET f == StepClauses(d, d')
     IN IF f = {} THEN nbad' = nbad
        ELSE /\ PrintT(ToJson([ev |-> "CLAUSE", tid |-> tid, clauses |-> f, pc |-> d'.pc]))
             /\ nbad' = nbad + 1
  /\ UNCHANGED tid

Judge ==
  /\ tid <= N /\ Terminal(d)
  /\ LET v0 == IF Precise(tid) THEN Verdict(d, Tr[tid])
              ELSE IF Tr[tid].kind \in {"ok", "DecoderError"} THEN "" ELSE "exception type " \o Tr[tid].kind
         v == IF v0 = "" /\ "attr" \in DOMAIN Tr[tid] /\ d.pc = "done" /\ Tr[tid].out = d.out
              THEN AttrClause(d, Tr[tid]) ELSE v0
     IN IF v = "" THEN nbad' = nbad
        ELSE /\ PrintT(ToJson([ev |-> "MISMATCH", tid |-> tid, clause |-> v, spec_kind |-> Outcome(d).kind,
                               spec_out |-> Outcome(d).value]))
             /\ nbad' = nbad + 1
  /\ (Precise(tid) /\ d.pc = "done" /\ Tr[tid].kind = "ok" /\ Tr[tid].out # d.out /\ ~LabelOverflow(d)) =>
         PrintT(ToJson([ev |-> "SEMANTIC", tid |-> tid]))
  /\ LabelOverflow(d) => PrintT(ToJson([ev |-> "OVERFLOW", tid |-> tid]))
  /\ tid' = tid + 1
  /\ d' = IF tid < N THEN StartState(tid + 1) ELSE d
  /\ (tid = N => PrintT(ToJson([ev |-> "DONE", n |-> N, nbad |-> nbad'])))

Next == StepAct \/ Judge
Spec == Init /\ [][Next]_vars
=====================================================================
