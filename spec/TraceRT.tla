----------------------------- MODULE TraceRT -----------------------------
(* Trace validation of recorded encoder / round-trip calls.  Each record    *)
(*   [smi, strict, kind, why, sel, dec, reenc]                              *)
(* is one SMILES given to the real library under Table:                     *)
(*   kind/why : outcome of encoder(smi, strict) ("ok", or "EncoderError"    *)
(*              with the reason the library reported: parse / kekulize /    *)
(*              constraints / other; any other exception type as kind);     *)
(*   sel      : the returned SELFIES; dec : decoder(sel); reenc :           *)
(*              encoder(dec).                                               *)
(* The specification reads smi with its own SMILES reader (G1), decodes sel *)
(* with its own decoder machine (the oracle that is not the code) and       *)
(* judges the clauses of C03 C04 C05 C06 C09 C10; then reads the library's  *)
(* dec and compares it with its own decoding (C02 on real molecules).       *)
(* Acceptance itself is not demanded of the encoder, except: kekulisation   *)
(* may fail only if no assignment exists (C05), strict may reject only an   *)
(* over-capacity atom (C06).  One record = one TLC step; verdicts are total.*)
EXTENDS RoundTrip, SelfiesLexer, Json

N == Len(Tr)
VARIABLES tid, nbad
vars == <<tid, nbad>>

(* bounded search for an assignment: depth-first over the atoms that need a *)
(* pi bond, lowest index first (exponential in the worst case; the harness  *)
(* only asks for it on rejected inputs of moderate size)                    *)
RECURSIVE MatchSearch(_, _, _, _)
MatchSearch(E, Needs, Free, used) ==     \* used: atoms already covered
  LET todo == Needs \ used
  IN IF todo = {} THEN TRUE
     ELSE LET a == CHOOSE x \in todo : \A y \in todo : x <= y
              nb == {b \in Free \ used : b # a /\ (<<Min(a, b), Max(a, b)>> \in E)}
          IN \E b \in nb : MatchSearch(E, Needs, Free, used \cup {a, b})
AssignmentExists(A1, J1) ==
  LET E  == AroEdges(J1)
      DS == {a \in 1..Len(A1) : InDS(E, a)}
      Nd == {a \in DS : PiClass(A1, J1, a) = "needs"}
      Un == {a \in DS : PiClass(A1, J1, a) = "unspec"}
  IN MatchSearch(E, Nd, Nd \cup Un, {})
AllStandard(A1, J1) ==       \* no atom of the aromatic system is undecided by the rule
  LET E == AroEdges(J1) IN \A a \in 1..Len(A1) : InDS(E, a) => PiClass(A1, J1, a) # "unspec"

KekAdj(J1, M) == ApplyKek(J1, M)
OverfullAfter(A1, J1, M) ==
  {a \in 1..Len(A1) : BondSumE(KekAdj(J1, M), a) + (IF A1[a].h > 0 THEN A1[a].h ELSE 0)
                         > Capacity(Table, A1[a].el, A1[a].chg)}

(* atoms above capacity when every atom that needs a pi bond gets exactly one *)
MinOverfull(A1, J1) ==
  LET E == AroEdges(J1)
  IN {a \in 1..Len(A1) :
        SigmaCount(J1, a) + (IF InDS(E, a) /\ PiClass(A1, J1, a) = "needs" THEN 1 ELSE 0)
          + (IF A1[a].h > 0 THEN A1[a].h ELSE 0) > Capacity(Table, A1[a].el, A1[a].chg)}

SemEq(dd, smi) ==          \* the library's decoded SMILES denotes dd's molecule
  IF smi = dd.out THEN ""
  ELSE LET g == ReadSmilesX(smi, TRUE)
       IN IF ~g.ok THEN "decoded SMILES not well formed"
          ELSE IF Len(g.atoms) # Len(dd.atoms) THEN "decoded: atom count"
          ELSE IF \E i \in 1..Len(dd.atoms) : CoreAtom(g.atoms[i]) # CoreAtom(dd.atoms[i].atom) THEN "decoded: atom fields"
          ELSE IF BondSet(g.adj) # RTBondSet(dd) THEN "decoded: bonds"
          ELSE IF MarkSet(g.adj) # RTDecMarks(dd) THEN "decoded: marks"
          ELSE IF \E i \in 1..Len(dd.atoms) :
                    OutOrder(g.adj, i) # [k \in 1..Len(Adj(dd, i)) |-> Other(dd.bonds[Adj(dd, i)[k]], i)]
               THEN "decoded: neighbour order"
          ELSE ""

(* C17, encoder side: the j-th atom symbol of the output (the symbol that   *)
(* creates atom j in the specification's decoding) is attributed to the     *)
(* j-th atom token of the input                                             *)
EAttrClause(g, dd, r) ==
  LET A == r.eattr
      S == SelectSeq(Split(r.sel), LAMBDA t : t # ".")
  IN IF \E j \in 1..Len(g.atoms) :
          LET p == dd.atoms[j].attr[Len(dd.atoms[j].attr)].idx
          IN ~\E k \in 1..Len(A) :
                /\ A[k].idx = p /\ A[k].tok = S[p + 1] /\ A[k].has
                /\ \E m \in 1..Len(A[k].att) : A[k].att[m].i = g.atoms[j].tok /\ A[k].att[m].sym = g.atoms[j].txt
     THEN "a SELFIES atom symbol is not attributed to the SMILES atom token it was made from"
     ELSE ""

Verdict(r) ==
  IF r.kind \notin {"ok", "EncoderError"} THEN <<"C09", "exception type " \o r.kind>>
  ELSE
  LET g == ReadSmiles(r.smi)
  IN IF ~g.ok
     THEN (* the reader rejects the input: the molecule-level clauses cannot be judged, but what the   *)
          (* library returned must still be well formed, decodable and stable under re-encoding        *)
          IF r.kind # "ok" THEN <<"", "unjudged: outside the specification's SMILES subset">>
          ELSE IF ~WellFormed(r.sel) THEN <<"C14", "encoder output is not a well-formed SELFIES string">>
          ELSE LET dx == DecodeFn(Split(r.sel))
               IN IF dx.pc # "done" \/ dx.fuzzy THEN <<"C10", "encoder output contains a symbol outside the grammar">>
                  ELSE IF Len(r.dec) > 0 /\ Ch(r.dec, 1) = "<" THEN <<"C10", "the library's decoder rejects the encoder's output: " \o r.dec>>
                  ELSE IF r.reenc # r.sel THEN <<"C10", "re-encoding the decoded SMILES gives a different SELFIES string (input outside the reader's subset)">>
                  ELSE <<"", "unjudged: accepted by the library, outside the specification's SMILES subset">>
     ELSE IF r.kind = "EncoderError"
          THEN IF r.why = "kekulize"
               THEN IF AllStandard(g.atoms, g.adj) /\ AssignmentExists(g.atoms, g.adj)
                    THEN <<"C05", "kekulisation failed although an assignment exists">> ELSE <<"", "">>
               ELSE IF r.why = "constraints"
               THEN IF ~r.strict THEN <<"C06", "constraint rejection with strict=False">>
                    ELSE IF AroEdges(g.adj) = {} /\ OverfullAfter(g.atoms, g.adj, {}) = {}
                         THEN <<"C06", "strict rejection although no atom exceeds its capacity">>
                    ELSE IF AroEdges(g.adj) # {} /\ AllStandard(g.atoms, g.adj) /\ MinOverfull(g.atoms, g.adj) = {}
                         THEN <<"C05", "strict rejection of an aromatic molecule in which no atom can exceed its capacity under any valid assignment">>
                    ELSE <<"", "">>
               ELSE <<"", "unjudged: rejected by the library's parser">>
     ELSE \* accepted
     IF ~WellFormed(r.sel) THEN <<"C14", "encoder output is not a well-formed SELFIES string">>
     ELSE IF r.strict /\ AroEdges(g.adj) = {} /\ OverfullAfter(g.atoms, g.adj, {}) # {}
          THEN <<"C06", "strict accepted a molecule with an atom above its capacity">>
     ELSE IF r.strict /\ AroEdges(g.adj) # {} /\ MinOverfull(g.atoms, g.adj) # {}
          THEN <<"C06", "strict accepted an aromatic molecule with an atom above its capacity under every valid assignment">>
     ELSE
     LET dd == DecodeFn(Split(r.sel))
     IN IF dd.pc # "done" \/ dd.fuzzy THEN <<"C10", "encoder output contains a symbol outside the grammar">>
        ELSE IF RTAtoms(g.atoms, dd) # "" THEN <<"C03", RTAtoms(g.atoms, dd)>>
        ELSE IF RTBonds(g.atoms, g.adj, dd) # ""
             THEN <<IF AroEdges(g.adj) = {} THEN "C03" ELSE "C05", RTBonds(g.atoms, g.adj, dd)>>
        ELSE IF RTMarks(g.adj, dd) # "" THEN <<"C04", RTMarks(g.adj, dd)>>
        ELSE IF RTSense(g.atoms, g.adj, dd) # "" THEN <<"C04", RTSense(g.atoms, g.adj, dd)>>
        ELSE IF r.strict /\ OverfullAfter(g.atoms, g.adj, RTMatching(g.adj, dd)) # {}
             THEN <<"C06", "strict accepted a molecule with an atom above its capacity">>
        ELSE IF Len(r.dec) > 0 /\ Ch(r.dec, 1) = "<" THEN <<"C10", "the library's decoder rejects the encoder's output: " \o r.dec>>
        ELSE IF SemEq(dd, r.dec) # "" THEN <<"C02", SemEq(dd, r.dec)>>
        ELSE IF r.reenc # r.sel THEN <<"C10", "re-encoding the decoded SMILES gives a different SELFIES string">>
        ELSE IF "eattr" \in DOMAIN r /\ EAttrClause(g, dd, r) # "" THEN <<"C17", EAttrClause(g, dd, r)>>
        ELSE <<"", "">>

Init == tid = 1 /\ nbad = 0
Judge ==
  /\ tid <= N
  /\ LET v == Verdict(Tr[tid])
     IN IF v[1] = "" THEN /\ nbad' = nbad
                          /\ (v[2] # "" => PrintT(ToJson([ev |-> "NOTE", tid |-> tid, note |-> v[2]])))
        ELSE /\ PrintT(ToJson([ev |-> "MISMATCH", tid |-> tid, prop |-> v[1], clause |-> v[2]]))
             /\ nbad' = nbad + 1
  /\ tid' = tid + 1
  /\ (tid = N => PrintT(ToJson([ev |-> "DONE", n |-> N, nbad |-> nbad'])))
Next == Judge
Spec == Init /\ [][Next]_vars
=====================================================================
