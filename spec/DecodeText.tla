--------------------------- MODULE DecodeText ---------------------------
(* selfies.decoder on arbitrary text (C08, C14): the raw string is chosen   *)
(* in Init from RawSet, scanned by SelfiesLexer, and the token stream is    *)
(* handed to the decoder machine.  A hanging '[' is a DecoderError.         *)
(* Note on laziness: the implementation scans lazily, fragment by fragment; *)
(* an invalid symbol reached in an earlier fragment and a hanging bracket   *)
(* in a later one both end in DecoderError, so the outcome kind is the same *)
(* as with the eager scan used here.                                        *)
EXTENDS DecodeCall, SelfiesLexer

(* all strings over Chars of length 0..n *)
RECURSIVE Strings(_, _)
Strings(Chars, n) == IF n = 0 THEN {""}
                     ELSE LET S == Strings(Chars, n - 1)
                          IN S \cup {s \o c : s \in {t \in S : Len(t) = n - 1}, c \in Chars}

(* RawChars, RawLen, RawFirst (partition by first character) come from DecParams *)
RawSet == {c \o t : c \in RawFirst, t \in Strings(RawChars, RawLen - 1)}
          \cup (IF AllowEmpty THEN {""} ELSE {})

VARIABLE raw
tvars == <<d, raw>>

TextInit == /\ raw \in RawSet
            /\ d = LET sc == Scan(raw)
                   IN IF sc.ok THEN InitState(sc.toks, TRUE)
                      ELSE [InitState(<<>>, TRUE) EXCEPT !.pc = "error"]
TextNext == /\ LET k == Kind(d) IN k \notin {"wait", "done", "error"} /\ d' = Step(d)
            /\ UNCHANGED raw
TextSpec == TextInit /\ [][TextNext]_tvars
TextFair == TextSpec /\ WF_tvars(TextNext)
TextTerminates == <>(Terminal(d))

(* C14 (design side): on well-formed text the scanner agrees with Split *)
ScanIsSplit == WellFormed(raw) => (Scan(raw).ok /\ Scan(raw).toks = Split(raw))
SplitConcat == WellFormed(raw) => Concat(Split(raw)) = raw
SplitCount  == WellFormed(raw) => Len(Split(raw)) = Count(raw, "[") + Count(raw, ".")

TextVector == [raw |-> raw, wf |-> WellFormed(raw), kind |-> Outcome(d).kind, out |-> Outcome(d).value,
               toks |-> IF WellFormed(raw) THEN Split(raw) ELSE <<>>, fuzzy |-> d.fuzzy]
TextEmit == Terminal(d) => PrintT(ToJson(TextVector))
=====================================================================
