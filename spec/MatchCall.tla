----------------------------- MODULE MatchCall -----------------------------
(* One call of find_perfect_matching on every graph within the bounds: the   *)
(* state machine of module Matching driven by TLC.  A run first fixes the    *)
(* graph: the edge set in the initial state, then (MOrders = "all") the      *)
(* order of every adjacency list, one node per Build step; MOrders = "asc"   *)
(* takes ascending lists, "desc" descending ones.  After that every step is  *)
(* an action of the algorithm; Pick is the only nondeterministic one.        *)
EXTENDS Matching

VARIABLE m
mvars == <<m>>

Nbrs(n, E, a) == {b \in 1..n : <<a, b>> \in E \/ <<b, a>> \in E}
RECURSIVE SortedSeq(_)
SortedSeq(S) == IF S = {} THEN <<>> ELSE <<MinOf(S)>> \o SortedSeq(S \ {MinOf(S)})
Reverse(s) == [i \in 1..Len(s) |-> s[Len(s) + 1 - i]]
PermSeqs(S) == {s \in [1..Cardinality(S) -> S] : \A i, j \in 1..Cardinality(S) : i # j => s[i] # s[j]}

EdgeSets == UNION {{[n |-> p.n, E |-> p.forced \cup X] : X \in SUBSET p.free} : p \in MParts}
DegOk(ge) == \A a \in 1..ge.n : Cardinality(Nbrs(ge.n, ge.E, a)) <= MMaxDeg

StartOf(ge) ==
  IF MOrders = "all" THEN [pc |-> "build", n |-> ge.n, E |-> ge.E, g |-> <<>>]
  ELSE InitM([a \in 1..ge.n |-> IF MOrders = "asc" THEN SortedSeq(Nbrs(ge.n, ge.E, a))
                                 ELSE Reverse(SortedSeq(Nbrs(ge.n, ge.E, a)))])

MInit == \E p \in MParts : \E X \in SUBSET p.free :
            LET ge == [n |-> p.n, E |-> p.forced \cup X] IN DegOk(ge) /\ m = StartOf(ge)

Build ==
  /\ m.pc = "build"
  /\ IF Len(m.g) = m.n THEN m' = InitM(m.g)
     ELSE \E p \in PermSeqs(Nbrs(m.n, m.E, Len(m.g) + 1)) : m' = [m EXCEPT !.g = Append(@, p)]

GreedyPop  == m.pc # "build" /\ Kind(m) = "GreedyPop"  /\ m' = DoGreedyPop(m)
GreedyDone == m.pc # "build" /\ Kind(m) = "GreedyDone" /\ m' = DoGreedyDone(m)
Pick       == m.pc # "build" /\ Kind(m) = "Pick"       /\ \E r \in m.un : m' = DoPick(m, r)
BfsNode    == m.pc # "build" /\ Kind(m) = "BfsNode"    /\ m' = DoBfsNode(m)
BfsEnd     == m.pc # "build" /\ Kind(m) = "BfsEnd"     /\ m' = DoBfsEnd(m)
Return     == m.pc # "build" /\ Kind(m) = "Return"     /\ m' = DoReturn(m)

MNext == Build \/ GreedyPop \/ GreedyDone \/ Pick \/ BfsNode \/ BfsEnd \/ Return
MSpec == MInit /\ [][MNext]_mvars
MFair == MSpec /\ WF_mvars(MNext)

Running == m.pc # "build"

GraphOk       == Running => WellFormedGraph(m.g)
MatchingValid == Running => MatchingValidC(m)
DegreesExact  == Running => DegreesExactC(m)
GreedyMaximal == Running => GreedyMaximalC(m)
TreeSound     == Running => TreeSoundC(m)
Complete      == Running => CompleteC(m)
Perfect       == Running => PerfectC(m)
TwoResults    == Running => (m.pc = "done" <=> m.res \in {"none", "matched"}) /\ m.res \in {"", "none", "matched"}
(* the search needs no more than one queue entry per edge end and node, one augmentation per pair *)
Effort        == Running => m.pops <= Len(m.g) + 2 * Cardinality({<<a, b>> \in NodesOf(m.g) \X NodesOf(m.g) : IsEdge(m.g, a, b)})
                            /\ 2 * m.augs <= Len(m.g)

(* action properties: what an augmentation is *)
PathAugments == [][(Running /\ m.pc = "bfs" /\ m'.pc = "pick") => PathAugmentsC(m, m'.path)]_mvars
SizeGrows    == [][(Running /\ m.pc = "bfs" /\ m'.pc = "pick") => SizeOf(m') = SizeOf(m) + 2]_mvars
GreedyGrows  == [][(Running /\ m.pc = "greedy" /\ m'.pc = "greedy") =>
                      (SizeOf(m') \in {SizeOf(m), SizeOf(m) + 2} /\ \A i \in NodesOf(m.g) : m.mt[i] # None => m'.mt[i] = m.mt[i])]_mvars
Terminates   == <>(m.pc = "done")

(* GEN -> REPLAY: the graph (0-based, as the code takes it), whether it has a perfect matching at all, *)
(* and the outcome of this run of the model                                                           *)
ZeroBased(g) == [a \in 1..Len(g) |-> [k \in 1..Len(g[a]) |-> g[a][k] - 1]]
MEmit == (Running /\ m.pc = "done") =>
            PrintT(ToJson([g |-> ZeroBased(m.g), n |-> Len(m.g), pm |-> HasPM(m.g, NodesOf(m.g)), res |-> m.res,
                           mt |-> [i \in NodesOf(m.g) |-> m.mt[i] - 1], augs |-> m.augs, contr |-> m.contr]))

=============================================================================
