-------------------------- MODULE SmilesReader --------------------------
(* The specification's own SMILES reader: tokenizer and parser for the      *)
(* subset of OpenSMILES that the encoder docstring declares supported       *)
(* (no '*', no '$', chirality @/@@ only, ring closures within a fragment).  *)
(* It serves three purposes: (1) the first stage of the encoder machine;    *)
(* (2) reading back the decoder's output (write . parse = id, C01);         *)
(* (3) the semantic comparison of molecules in the round-trip properties.   *)
(*                                                                          *)
(* Graph representation (shared with the encoder machine):                  *)
(*   atoms : Seq of atom records (SymbolGrammar) extended with tok (input   *)
(*           token index) ;  adj[i] : Seq of out-slots of atom i in WRITTEN *)
(*           order, each [kind, to, order, st]:                             *)
(*           kind "chain" (bond to a later atom written after it),          *)
(*                "ring"  (ring-closure digit; both ends carry one slot),   *)
(*                "hole"  (digit of a ring that is still open);             *)
(*           order 1, 2, 3 or 15 (aromatic, "one and a half").              *)
EXTENDS SymbolGrammar

SmilesBondChars == {"-", "/", "\\", ":", "=", "#"}
SOrder(b) == CASE b = "=" -> 2 [] b = "#" -> 3 [] b = ":" -> 15 [] OTHER -> 1

(***************************************************************************)
(* Tokenizer.  A token is a symbol with its preceding bond character.      *)
(***************************************************************************)
Tk(ty, b, txt, lab, at) == [ty |-> ty, b |-> b, txt |-> txt, lab |-> lab, at |-> at]

(* one token starting at position i of s: [ok, tok, next] *)
LexOne(s, i) ==
  LET n  == Len(s)
      c0 == Ch(s, i)
  IN IF c0 = "." THEN [ok |-> TRUE, tok |-> Tk("dot", "", ".", 0, i), next |-> i + 1]
     ELSE
     LET b == IF c0 \in SmilesBondChars THEN c0 ELSE ""
         j == i + Len(b)
         c == IF j <= n THEN Ch(s, j) ELSE ""
         bad == [ok |-> FALSE, tok |-> Tk("bad", "", "", 0, i), next |-> n + 1]
     IN IF j > n THEN bad                                      \* hanging bond
        ELSE IF IsAlpha(c)
             THEN IF j + 1 <= n /\ Slice(s, j, j + 1) \in {"Br", "Cl"}
                  THEN [ok |-> TRUE, tok |-> Tk("atom", b, Slice(s, j, j + 1), 0, j), next |-> j + 2]
                  ELSE [ok |-> TRUE, tok |-> Tk("atom", b, c, 0, j), next |-> j + 1]
        ELSE IF c = "["
             THEN LET r == Find(s, "]", j + 1)
                  IN IF r = 0 THEN bad
                     ELSE [ok |-> TRUE, tok |-> Tk("atom", b, Slice(s, j, r), 0, j), next |-> r + 1]
        ELSE IF c \in {"(", ")"}
             THEN IF b # "" THEN bad
                  ELSE [ok |-> TRUE, tok |-> Tk(IF c = "(" THEN "open" ELSE "close", "", c, 0, j), next |-> j + 1]
        ELSE IF IsDigit(c)
             THEN [ok |-> TRUE, tok |-> Tk("ring", b, c, DigitVal(c), j), next |-> j + 1]
        ELSE IF c = "%"
             THEN IF j + 2 <= n /\ IsDigit(Ch(s, j + 1)) /\ IsDigit(Ch(s, j + 2))
                  THEN [ok |-> TRUE, tok |-> Tk("ring", b, Slice(s, j, j + 2), NatOf(Slice(s, j + 1, j + 2)), j),
                        next |-> j + 3]
                  ELSE bad
        ELSE bad

RECURSIVE LexFrom(_, _)
LexFrom(s, i) ==
  IF i > Len(s) THEN [ok |-> TRUE, toks |-> <<>>]
  ELSE LET t == LexOne(s, i)
       IN IF ~t.ok THEN [ok |-> FALSE, toks |-> <<>>]
          ELSE LET r == LexFrom(s, t.next)
               IN [ok |-> r.ok, toks |-> <<t.tok>> \o r.toks]
LexSmiles(s) == LexFrom(s, 1)

(* a single token given as text, e.g. "=C", "(", "%12", "/[C@H]" *)
TokOf(txt) == LexOne(txt, 1).tok

(***************************************************************************)
(* Atom tokens                                                             *)
(***************************************************************************)
ReadAtomTok(txt) ==
  IF Len(txt) >= 2 /\ Ch(txt, 1) = "[" /\ Ch(txt, Len(txt)) = "]" THEN ParseBracketAtom(txt)
  ELSE IF txt \in ORGANIC THEN [ok |-> TRUE, atom |-> PlainAtom(txt)]
  ELSE IF txt \in AROMATIC_SUBSET
       THEN [ok |-> TRUE, atom |-> [PlainAtom(UpperOf(Ch(txt, 1)) \o From(txt, 2)) EXCEPT !.aro = TRUE]]
  ELSE [ok |-> FALSE, atom |-> NoAtom]

(***************************************************************************)
(* Parser state and step                                                   *)
(***************************************************************************)
(* xdot = TRUE reads full OpenSMILES, where a ring closure may span a '.'   *)
(* ("C1.C1" is ethane); xdot = FALSE is the encoder's documented subset.   *)
PInitX(xdot) ==
         [ xdot   |-> xdot,
           atoms  |-> <<>>,  adj |-> <<>>,
           pstack |-> <<0>>,          \* previous atom per open branch level (0 = none yet)
           bdepth |-> 0,
           rlog   |-> {},             \* open ring closures [lab, atom, slot, b]
           cstart |-> TRUE,           \* at the start of a chain (fragment start or just after '(')
           ntok   |-> 0,              \* tokens consumed (attribution positions)
           tix    |-> 0,              \* attribution index counter (bond symbols on atoms count)
           lastdot |-> FALSE,
           err    |-> "" ]
PInit == PInitX(FALSE)

PTop(p) == p.pstack[Len(p.pstack)]
PHasBond(p, a, b) ==
  \/ \E k \in 1..Len(p.adj[a]) : p.adj[a][k].kind # "hole" /\ p.adj[a][k].to = b
  \/ \E k \in 1..Len(p.adj[b]) : p.adj[b][k].kind # "hole" /\ p.adj[b][k].to = a
PErr(p, why) == [p EXCEPT !.err = why]

PAtom(p, t) ==
  LET ra == ReadAtomTok(t.txt)
      n  == Len(p.atoms) + 1
      pr == PTop(p)
      ix == p.tix + (IF t.b # "" THEN 1 ELSE 0)
  IN IF ~ra.ok THEN PErr(p, "invalid atom symbol")
     ELSE LET ord == IF pr # 0 /\ t.b = "" /\ p.atoms[pr].aro /\ ra.atom.aro THEN 15 ELSE SOrder(t.b)
              a   == ra.atom @@ [tok |-> ix, txt |-> t.txt]
          IN [p EXCEPT
                !.atoms = Append(@, a),
                !.adj = IF pr = 0 THEN Append(@, <<>>)
                        ELSE Append([@ EXCEPT ![pr] = Append(@, [kind |-> "chain", to |-> n, order |-> ord,
                                                                 st |-> Stereo(t.b)])], <<>>),
                !.pstack = [@ EXCEPT ![Len(@)] = n],
                !.cstart = FALSE, !.tix = ix + 1]

POpen(p, t) ==
  IF p.cstart THEN PErr(p, "chain begins with non-atom")
  ELSE [p EXCEPT !.pstack = Append(@, PTop(p)), !.bdepth = @ + 1, !.cstart = TRUE, !.tix = @ + 1]

PClose(p, t) ==
  IF p.cstart THEN PErr(p, "chain begins with non-atom")
  ELSE IF p.bdepth = 0 THEN PErr(p, "hanging ) bracket")
  ELSE [p EXCEPT !.pstack = SubSeq(@, 1, Len(@) - 1), !.bdepth = @ - 1, !.tix = @ + 1]

PRing(p, t) ==
  IF p.cstart THEN PErr(p, "chain begins with non-atom")
  ELSE LET a    == PTop(p)
           open == {r \in p.rlog : r.lab = t.lab}
       IN IF open = {}
          THEN [p EXCEPT !.adj[a] = Append(@, [kind |-> "hole", to |-> 0, order |-> 0, st |-> ""]),
                         !.rlog = @ \cup {[lab |-> t.lab, atom |-> a, slot |-> Len(p.adj[a]) + 1, b |-> t.b]},
                         !.tix = @ + 1]
          ELSE LET r   == CHOOSE r \in open : TRUE
                   lb  == r.b      rb == t.b
                   b0  == IF lb = "" THEN rb ELSE lb
                   b1  == IF lb = "" THEN lb ELSE rb
                   okb == (b0 = b1) \/ (b1 = "") \/ (b0 \in {"/", "\\"} /\ b1 \in {"/", "\\"})
                   aro == lb = "" /\ rb = "" /\ p.atoms[r.atom].aro /\ p.atoms[a].aro
                   ord == IF aro THEN 15 ELSE Max(SOrder(lb), SOrder(rb))
               IN IF r.atom = a THEN PErr(p, "ring closure onto the same atom")
                  ELSE IF PHasBond(p, r.atom, a) THEN PErr(p, "ring bond between already-bonded atoms")
                  ELSE IF ~okb THEN PErr(p, "mismatched ring bonds")
                  ELSE [p EXCEPT
                          !.adj = [@ EXCEPT ![r.atom][r.slot] = [kind |-> "ring", to |-> a, order |-> ord, st |-> Stereo(lb)],
                                            ![a] = Append(@, [kind |-> "ring", to |-> r.atom, order |-> ord, st |-> Stereo(rb)])],
                          !.rlog = @ \ {r}, !.tix = @ + 1]

(* end of a fragment: at '.' or at the end of the input *)
PEndFrag(p) ==
  IF Len(p.atoms) = 0 THEN PErr(p, "empty SMILES fragment")
  ELSE IF p.bdepth > 0 THEN PErr(p, "hanging ( bracket")
  ELSE IF p.rlog # {} /\ ~p.xdot THEN PErr(p, "hanging ring number")
  ELSE [p EXCEPT !.pstack = <<0>>, !.cstart = TRUE]

PDot(p, t) == [PEndFrag(p) EXCEPT !.lastdot = TRUE]

PStep(p, t) ==
  LET q == [p EXCEPT !.ntok = @ + 1, !.lastdot = FALSE]
  IN CASE t.ty = "atom"  -> PAtom(q, t)
       [] t.ty = "open"  -> POpen(q, t)
       [] t.ty = "close" -> PClose(q, t)
       [] t.ty = "ring"  -> PRing(q, t)
       [] t.ty = "dot"   -> PDot(q, t)
       [] OTHER -> PErr(q, "bad token")

(* end of input.  A trailing '.' simply ends the loop (the last fragment is *)
(* then empty and nothing is checked).                                      *)
PFinish(p) == IF p.ntok = 0 THEN PErr(p, "empty SMILES")
              ELSE LET q == IF p.lastdot THEN p ELSE PEndFrag(p)
                   IN IF q.err = "" /\ q.rlog # {} THEN PErr(q, "hanging ring number") ELSE q

RECURSIVE PRun(_, _, _)
PRun(p, toks, i) == IF p.err # "" THEN p
                    ELSE IF i > Len(toks) THEN PFinish(p)
                    ELSE PRun(PStep(p, toks[i]), toks, i + 1)

(* read a whole SMILES string: [ok, atoms, adj] *)
ReadSmilesX(s, xdot) ==
  IF s = "" THEN [ok |-> FALSE, atoms |-> <<>>, adj |-> <<>>]
  ELSE LET lx == LexSmiles(s)
       IN IF ~lx.ok THEN [ok |-> FALSE, atoms |-> <<>>, adj |-> <<>>]
          ELSE LET p == PRun(PInitX(xdot), lx.toks, 1)
               IN [ok |-> p.err = "", atoms |-> p.atoms, adj |-> p.adj]
ReadSmiles(s) == ReadSmilesX(s, FALSE)

(***************************************************************************)
(* Molecule-level views used by the comparisons                            *)
(***************************************************************************)
CoreAtom(a) == [el |-> a.el, iso |-> a.iso, chi |-> a.chi, h |-> a.h, chg |-> a.chg]
(* bonded pairs with orders: set of <<lo, hi, order>> *)
BondSet(adj) ==
  UNION {{<<Min(i, adj[i][k].to), Max(i, adj[i][k].to), adj[i][k].order>> :
            k \in {x \in 1..Len(adj[i]) : adj[i][x].kind # "hole"}} : i \in 1..Len(adj)}
(* stereo marks per bond end: set of <<from, to, mark>> *)
MarkSet(adj) ==
  UNION {{<<i, adj[i][k].to, adj[i][k].st>> :
            k \in {x \in 1..Len(adj[i]) : adj[i][x].kind # "hole" /\ adj[i][x].st # ""}} : i \in 1..Len(adj)}
(* the written order of the neighbours reached through out-slots *)
OutOrder(adj, i) == [k \in 1..Len(adj[i]) |-> adj[i][k].to]
=====================================================================
