--------------------------- MODULE DecodeCall ---------------------------
(* One call of selfies.decoder as a TLA+ behaviour.                         *)
(*  - generation mode (Gen = TRUE): the input is chosen lazily, symbol by   *)
(*    symbol from Alphabet (Supply) until it is closed (Close); every       *)
(*    behaviour is one input together with the machine's run on it;         *)
(*  - fixed-input mode (Gen = FALSE): the input is the constant Input.      *)
EXTENDS Decoder, SmilesReader, Json

(* From DecParams: Gen, Alphabet, MaxLen, Input, and FirstSyms / SecondSyms / AllowEmpty *)
(* (the partition of the input space over parallel TLC processes).          *)

VARIABLE d
vars == <<d>>

Init == d = IF Gen THEN InitState(<<>>, FALSE) ELSE InitState(Input, TRUE)

Supply(s) == /\ Gen /\ Kind(d) = "wait" /\ Len(d.inp) < MaxLen
             /\ (Len(d.inp) = 0 => s \in FirstSyms)
             /\ (Len(d.inp) = 1 => s \in SecondSyms)
             /\ d' = [d EXCEPT !.inp = Append(@, s)]
Close     == /\ Gen /\ Kind(d) = "wait" /\ (Len(d.inp) = 0 => AllowEmpty)
             /\ d' = [d EXCEPT !.closed = TRUE]

Act(name) == Kind(d) = name /\ d' = Step(d)

Nop == Act("Nop")                ReadAtom == Act("ReadAtom")
ReadBranch == Act("ReadBranch")  ReadRing == Act("ReadRing")
ReadEps == Act("ReadEps")        ReadFuzzy == Act("ReadFuzzy")
ReadInvalid == Act("ReadInvalid")
ReadIndex == Act("ReadIndex")    PhantomIndex == Act("PhantomIndex")
IndexDone == Act("IndexDone")    SkipTok == Act("SkipTok")
Pop == Act("Pop")                FormRing == Act("FormRing")
RingsDone == Act("RingsDone")    WNextRoot == Act("WNextRoot")
WStep == Act("WStep")

Next == \/ \E s \in Alphabet : Supply(s)
        \/ Close
        \/ Nop \/ ReadAtom \/ ReadBranch \/ ReadRing \/ ReadEps \/ ReadFuzzy \/ ReadInvalid
        \/ ReadIndex \/ PhantomIndex \/ IndexDone \/ SkipTok \/ Pop
        \/ FormRing \/ RingsDone \/ WNextRoot \/ WStep

Spec == Init /\ [][Next]_vars

(* the same next-state relation with the dispatcher evaluated once per state *)
(* (no per-action coverage); used for the large enumerations                 *)
FastNext == \/ \E s \in Alphabet : Supply(s)
            \/ Close
            \/ LET k == Kind(d) IN k \notin {"wait", "done", "error"} /\ d' = Step(d)
FastSpec == Init /\ [][FastNext]_vars
FairSpec == Spec /\ WF_vars(Next)

(* Action coverage without TLC's -coverage (which does not terminate on this *)
(* recursion-heavy specification): every distinct state is counted under the *)
(* kind of step it takes next; run with -workers 1, report by POSTCONDITION.  *)
KindNames == <<"Nop", "ReadAtom", "ReadBranch", "ReadRing", "ReadEps", "ReadFuzzy", "ReadInvalid",
               "ReadIndex", "PhantomIndex", "IndexDone", "SkipTok", "Pop", "FormRing", "RingsDone",
               "WNextRoot", "WStep", "wait", "done", "error">>
KIdx(k) == CHOOSE i \in 1..Len(KindNames) : KindNames[i] = k
CovSpec == (Init /\ \A i \in 1..Len(KindNames) : TLCSet(100 + i, 0)) /\ [][Next]_vars
CovCount == LET i == 100 + KIdx(Kind(d)) IN TLCSet(i, TLCGet(i) + 1)
CovReport == PrintT(ToJson([ev |-> "COVERAGE", names |-> KindNames,
                            counts |-> [i \in 1..Len(KindNames) |-> TLCGet(100 + i)]]))

(* hide the consumed part of the input: the future does not depend on it *)
NoAttr(sq) == [i \in 1..Len(sq) |-> [sq[i] EXCEPT !.attr = <<>>]]
View == << [d EXCEPT !.inp = SubSeq(d.inp, d.rp + 1, Len(d.inp)), !.rp = 0, !.nsym = 0, !.fpos = 0, !.table = 0,
                     !.atoms = NoAttr(@), !.stack = NoAttr(@),
                     !.pend = IF @.k = "branch" THEN [@ EXCEPT !.at = 0] ELSE @],
           Len(d.inp) >>

-----------------------------------------------------------------------------
(* C01 as invariants over every reachable state *)
InvValence      == Valence(d)
InvCapIsTable   == CapIsTable(d)
InvStateBound   == StateBound(d)
InvNoSelfBond   == NoSelfBond(d)
InvNoDoubleEdge == NoDoubleEdge(d)
InvOrdersLegal  == OrdersLegal(d)
InvChainForward == ChainForward(d)
InvLabelsLegal  == LabelsLegal(d)
InvLabelsPaired == LabelsPaired(d)
InvRingsClosed  == EveryRingClosed(d)
InvBalanced     == Balanced(d)
InvNoEmptyBranch == NoEmptyBranch(d)
InvAllWritten   == AllWritten(d)
InvAdjMeaning   == AdjMeaning(d)
InvBcMeaning    == BcMeaning(d)
InvFastEquiv    == FastEquiv(d)

(* write . parse = id: the specification's own reader reads the written     *)
(* string back to the same molecule - atoms in order, bonded pairs and       *)
(* orders, stereo marks per bond end, written neighbour order per atom       *)
DecMarks(dd) ==
  UNION {LET b == dd.bonds[j] IN
           IF b.order # 1 THEN {}
           ELSE (IF b.ls # "" THEN {<<b.src, b.dst, b.ls>>} ELSE {})
                \cup (IF b.ring /\ b.rs # "" THEN {<<b.dst, b.src, b.rs>>} ELSE {}) : j \in 1..Len(dd.bonds)}
WriteParseId(dd) ==
  (dd.pc = "done" /\ Len(dd.atoms) > 0) =>
    LET g == ReadSmilesX(dd.out, TRUE)
    IN /\ g.ok
       /\ Len(g.atoms) = Len(dd.atoms)
       /\ \A i \in 1..Len(dd.atoms) : CoreAtom(g.atoms[i]) = CoreAtom(dd.atoms[i].atom) /\ ~g.atoms[i].aro
       /\ BondSet(g.adj) = {<<dd.bonds[j].src, dd.bonds[j].dst, dd.bonds[j].order>> : j \in 1..Len(dd.bonds)}
       /\ MarkSet(g.adj) = DecMarks(dd)
       /\ \A i \in 1..Len(dd.atoms) :
             OutOrder(g.adj, i) = [k \in 1..Len(Adj(dd, i)) |-> Other(dd.bonds[Adj(dd, i)[k]], i)]
InvWriteParseId == WriteParseId(d)
InvEmptyOut == (d.pc = "done" /\ Len(d.atoms) = 0) => d.out = ""

(* C13: [nop] is invisible - the run on the input without its [nop]s ends in *)
(* the same outcome and the same molecule with the same attribution          *)
StripNop(sq) == SelectSeq(sq, LAMBDA t : t # "[nop]")
NopInvisible ==
  Terminal(d) => LET e == Run(InitStateT(StripNop(d.inp), TRUE, d.compat, d.table))
                 IN Outcome(e) = Outcome(d) /\ e.atoms = d.atoms /\ e.bonds = d.bonds /\ e.otok = d.otok

(* C18: with compatible=True the result is that of the modernised string    *)
(* without the flag; hence identical on strings without legacy symbols       *)
ModernSeq(sq) == [i \in 1..Len(sq) |-> Modernize(sq[i])]
CompatIsModern ==
  (Terminal(d) /\ d.compat) =>
     LET e == Run(InitStateT(ModernSeq(d.inp), TRUE, FALSE, d.table))
     IN Outcome(e) = Outcome(d) /\ e.fuzzy = d.fuzzy /\ e.bonds = d.bonds

(* C07: over the robust alphabet the derivation never meets an invalid symbol *)
NeverInvalid == d.pc # "error" /\ ~d.fuzzy

(* C08 (design side): every behaviour reaches a terminal state *)
Terminates == <>(Terminal(d))

(* vector emission: one JSON line per terminal state (generation configs) *)
Vector == [inp |-> d.inp, kind |-> Outcome(d).kind, out |-> Outcome(d).value, fuzzy |-> d.fuzzy]
Emit == Terminal(d) => PrintT(ToJson(Vector))
=====================================================================
