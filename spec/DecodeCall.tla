--------------------------- MODULE DecodeCall ---------------------------
(* One call of selfies.decoder as a TLA+ behaviour.                         *)
(*  - generation mode (Gen = TRUE): the input is chosen lazily, symbol by   *)
(*    symbol from Alphabet (Supply) until it is closed (Close); every       *)
(*    behaviour is one input together with the machine's run on it;         *)
(*  - fixed-input mode (Gen = FALSE): the input is the constant Input.      *)
EXTENDS Decoder, Json

CONSTANTS Gen, Alphabet, MaxLen, Input

VARIABLE d
vars == <<d>>

Init == d = IF Gen THEN InitState(<<>>, FALSE) ELSE InitState(Input, TRUE)

Supply(s) == /\ Gen /\ Kind(d) = "wait" /\ Len(d.inp) < MaxLen
             /\ d' = [d EXCEPT !.inp = Append(@, s)]
Close     == /\ Gen /\ Kind(d) = "wait" /\ d' = [d EXCEPT !.closed = TRUE]

Act(name) == Kind(d) = name /\ d' = Step(d)

Nop == Act("Nop")                ReadAtom == Act("ReadAtom")
ReadBranch == Act("ReadBranch")  ReadRing == Act("ReadRing")
ReadEps == Act("ReadEps")        ReadFuzzy == Act("ReadFuzzy")
ReadInvalid == Act("ReadInvalid")
ReadIndex == Act("ReadIndex")    PhantomIndex == Act("PhantomIndex")
IndexDone == Act("IndexDone")    SkipTok == Act("SkipTok")
Pop == Act("Pop")                FormRing == Act("FormRing")
RingsDone == Act("RingsDone")    WNextRoot == Act("WNextRoot")
WStep == Act("WStep")

Next == \/ \E s \in Alphabet : Supply(s)
        \/ Close
        \/ Nop \/ ReadAtom \/ ReadBranch \/ ReadRing \/ ReadEps \/ ReadFuzzy \/ ReadInvalid
        \/ ReadIndex \/ PhantomIndex \/ IndexDone \/ SkipTok \/ Pop
        \/ FormRing \/ RingsDone \/ WNextRoot \/ WStep

Spec == Init /\ [][Next]_vars
FairSpec == Spec /\ WF_vars(Next)

(* hide the consumed part of the input: the future does not depend on it *)
NoAttr(sq) == [i \in 1..Len(sq) |-> [sq[i] EXCEPT !.attr = <<>>]]
View == << [d EXCEPT !.inp = SubSeq(d.inp, d.rp + 1, Len(d.inp)), !.rp = 0, !.nsym = 0, !.fpos = 0,
                     !.atoms = NoAttr(@), !.stack = NoAttr(@),
                     !.pend = IF @.k = "branch" THEN [@ EXCEPT !.at = 0] ELSE @],
           Len(d.inp) >>

-----------------------------------------------------------------------------
(* C01 as invariants over every reachable state *)
InvValence      == Valence(d)
InvCapIsTable   == CapIsTable(d)
InvStateBound   == StateBound(d)
InvNoSelfBond   == NoSelfBond(d)
InvNoDoubleEdge == NoDoubleEdge(d)
InvOrdersLegal  == OrdersLegal(d)
InvChainForward == ChainForward(d)
InvLabelsLegal  == LabelsLegal(d)
InvLabelsPaired == LabelsPaired(d)
InvRingsClosed  == EveryRingClosed(d)
InvBalanced     == Balanced(d)
InvNoEmptyBranch == NoEmptyBranch(d)
InvAllWritten   == AllWritten(d)

(* C08 (design side): every behaviour reaches a terminal state *)
Terminates == <>(Terminal(d))

(* vector emission: one JSON line per terminal state (generation configs) *)
Vector == [inp |-> d.inp, kind |-> Outcome(d).kind, out |-> Outcome(d).value, fuzzy |-> d.fuzzy]
Emit == Terminal(d) => PrintT(ToJson(Vector))
=====================================================================
