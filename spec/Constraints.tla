-------------------------- MODULE Constraints --------------------------
(* Semantic-constraint tables: which tables are accepted, what capacity an *)
(* atom has under a table, and the semantically robust alphabet of a table *)
(* (docstrings of set_semantic_constraints / get_semantic_robust_alphabet, *)
(* README "Customizing SELFIES").                                          *)
EXTENDS SymbolGrammar

(* A table is a function from key strings to integers.                     *)
(* Keys: "?", "E", "E+C", "E-C" with E an element and C a positive integer *)
(* in canonical decimal spelling (no sign, no leading zero).               *)
CanonPositive(s) == Len(s) >= 1 /\ Ch(s, 1) \in (Digits \ {"0"}) /\ AllIn(s, Digits)

KeySplit(k) ==    \* position of the sign character, 0 if there is none
  LET S == {i \in 1..Len(k) : Ch(k, i) \in {"+", "-"}}
  IN IF S = {} THEN 0 ELSE CHOOSE i \in S : \A j \in S : i <= j

ValidKey(k) ==
  \/ k = "?"
  \/ k \in ELEMENTS
  \/ LET j == KeySplit(k)
     IN j > 1 /\ Slice(k, 1, j - 1) \in ELEMENTS /\ CanonPositive(From(k, j + 1))

ValidTable(t) == /\ "?" \in DOMAIN t
                 /\ \A k \in DOMAIN t : ValidKey(k) /\ t[k] \in Nat

Capacity(t, el, chg) == LET key == el \o chg IN IF key \in DOMAIN t THEN t[key] ELSE t["?"]

(* free bonding capacity of an atom: table capacity minus explicit hydrogens *)
AtomCapacity(t, a) == Capacity(t, a.el, a.chg) - (IF a.h > 0 THEN a.h ELSE 0)

IndexSymbolSet == {INDEX_ALPHABET[i] : i \in 1..16}
BranchSymbolSet == {"[" \o b \o "Branch" \o ToString(L) \o "]" : b \in {"", "=", "#"}, L \in 1..3}
RobustRingSet == {"[" \o b \o "Ring" \o ToString(L) \o "]" : b \in {"", "="}, L \in 1..3}
AllRingSet == {"[" \o b \o "Ring" \o ToString(L) \o "]" :
                  b \in {"", "=", "#", "-/", "-\\", "/-", "//", "/\\", "\\-", "\\/", "\\\\"}, L \in 1..3}

RobustAlphabet(t) ==
  {"[" \o b \o k \o "]" : <<k, b>> \in {p \in (DOMAIN t \ {"?"}) \X {"", "=", "#"} : BondOrder(p[2]) <= t[p[1]]}}
  \cup IndexSymbolSet \cup BranchSymbolSet \cup RobustRingSet
=====================================================================
