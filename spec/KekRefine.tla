----------------------------- MODULE KekRefine -----------------------------
(* Refinement link between two members of the specification family: the      *)
(* encoder machine's Kekule step is specified by CONTRACT (Encoder!KekChoices:*)
(* any assignment that gives every atom that needs a pi bond exactly one, or  *)
(* failure iff none exists); module Matching specifies the ALGORITHM the code  *)
(* runs for it.  KekRefinesMatching states that the algorithm implements the   *)
(* contract: in every state in which the encoder machine is about to          *)
(* kekulise (all aromatic atoms of the standard kinds), the matching machine, *)
(* run on the subgraph the implementation would hand it - the aromatic atoms  *)
(* that need a pi bond, relabelled 1..n in ascending order, with the aromatic *)
(* bonds among them - ends in a matching that is one of the contract's        *)
(* choices, or fails exactly where the contract allows failure.  TLC checks   *)
(* it on every aromatic token string of the C05 enumerations.                 *)
EXTENDS EncodeCall

MM == INSTANCE Matching

RECURSIVE SortedOf(_)
SortedOf(S) == IF S = {} THEN <<>>
               ELSE LET m == CHOOSE x \in S : \A y \in S : x <= y IN <<m>> \o SortedOf(S \ {m})
PosIn(sq, a) == CHOOSE i \in 1..Len(sq) : sq[i] = a

KekRefinesMatching ==
  EKind(e) = "Kek" =>
    LET E     == AroEdges(e.adj)
        DS    == {a \in 1..Len(e.atoms) : InDS(E, a)}
        Needs == {a \in DS : PiClass(e.atoms, e.adj, a) = "needs"}
        Sat   == {a \in DS : PiClass(e.atoms, e.adj, a) = "sat"}
        Un    == DS \ (Needs \cup Sat)
    IN Un = {} =>
       LET nodes == SortedOf(Needs)
           nbrs(a) == {b \in Needs : <<Min(a, b), Max(a, b)>> \in E /\ a # b}
           g == [i \in 1..Len(nodes) |-> LET sb == SortedOf(nbrs(nodes[i])) IN [k \in 1..Len(sb) |-> PosIn(nodes, sb[k])]]
           w == MM!Finish(MM!InitM(g))
           Mset == {<<Min(nodes[i], nodes[w.mt[i]]), Max(nodes[i], nodes[w.mt[i]])>> : i \in 1..Len(nodes)}
       IN IF w.res = "matched"
          THEN MatchingOn(Mset, Needs, {}, Sat) /\ Mset \subseteq E
          ELSE ~\E M \in SUBSET E : MatchingOn(M, Needs, {}, Sat)

(* vacuity probes: each MUST be violated in a configuration with aromatic rings (the harness insists) *)
KekGraph(ee) ==
  LET E     == AroEdges(ee.adj)
      DS    == {a \in 1..Len(ee.atoms) : InDS(E, a)}
      Needs == {a \in DS : PiClass(ee.atoms, ee.adj, a) = "needs"}
      nodes == SortedOf(Needs)
      nbrs(a) == {b \in Needs : <<Min(a, b), Max(a, b)>> \in E /\ a # b}
  IN [i \in 1..Len(nodes) |-> LET sb == SortedOf(nbrs(nodes[i])) IN [k \in 1..Len(sb) |-> PosIn(nodes, sb[k])]]
ProbeNeverMatchesRing == EKind(e) = "Kek" => ~(Len(KekGraph(e)) >= 4 /\ MM!Finish(MM!InitM(KekGraph(e))).res = "matched")
ProbeNeverFails       == EKind(e) = "Kek" => ~(Len(KekGraph(e)) >= 3 /\ MM!Finish(MM!InitM(KekGraph(e))).res = "none")
=============================================================================
