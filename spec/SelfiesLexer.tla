-------------------------- MODULE SelfiesLexer --------------------------
(* Character-level tokenisation of SELFIES text.                            *)
(*  - WellFormed(s): bracketed symbols (no '[', ']' or '.' inside),         *)
(*    optionally separated by single dots; the empty string.  This is the   *)
(*    precise region of C14 and of the decoder's lexer.                     *)
(*  - Split(s): the symbols and dots of a well-formed string, in order.     *)
(*  - Scan(s): the scanner as the library documents it for arbitrary text   *)
(*    (find '[', find the next ']', a '.' directly after a symbol is a      *)
(*    token, a '[' that is never closed is an error).  Outside WellFormed   *)
(*    the properties only demand totality, so Scan is used to predict the   *)
(*    outcome kind there but is never compared symbol for symbol.           *)
EXTENDS Text

(* position after the symbol that starts at i (s[i] = "["), 0 if malformed *)
SymEnd(s, i) ==
  LET r == Find(s, "]", i + 1)
  IN IF r = 0 THEN 0
     ELSE IF \E k \in (i + 1)..(r - 1) : Ch(s, k) \in {"[", "."} THEN 0 ELSE r + 1

RECURSIVE WFFrom(_, _, _)
WFFrom(s, i, afterSym) ==      \* afterSym: a symbol ended just before i
  IF i > Len(s) THEN TRUE
  ELSE IF Ch(s, i) = "[" THEN LET e == SymEnd(s, i) IN e # 0 /\ WFFrom(s, e, TRUE)
  ELSE IF Ch(s, i) = "." THEN afterSym /\ i < Len(s) /\ Ch(s, i + 1) = "[" /\ WFFrom(s, i + 1, FALSE)
  ELSE FALSE
WellFormed(s) == WFFrom(s, 1, FALSE)

RECURSIVE SplitFrom(_, _)
SplitFrom(s, i) ==
  IF i > Len(s) THEN <<>>
  ELSE IF Ch(s, i) = "." THEN <<".">> \o SplitFrom(s, i + 1)
  ELSE LET e == SymEnd(s, i) IN <<Slice(s, i, e - 1)>> \o SplitFrom(s, e)
Split(s) == SplitFrom(s, 1)            \* defined for WellFormed(s)

SymbolsOf(S) == UNION {{Split(s)[k] : k \in 1..Len(Split(s))} : s \in S} \ {"."}

(***************************************************************************)
(* The decoder's view of arbitrary text: fragments between dots, each      *)
(* scanned for symbols.  [ok, toks] with "." tokens between fragments.     *)
(***************************************************************************)
RECURSIVE ScanFrag(_, _)
ScanFrag(f, i) ==        \* i: where the next symbol is taken to start
  IF i > Len(f) THEN [ok |-> TRUE, toks |-> <<>>]
  ELSE LET r == Find(f, "]", i + 1)
       IN IF r = 0 THEN [ok |-> FALSE, toks |-> <<>>]
          ELSE LET rest == ScanFrag(f, r + 1)
               IN [ok |-> rest.ok, toks |-> <<Slice(f, i, r)>> \o rest.toks]
ScanFragment(f) == LET l == Find(f, "[", 1)
                   IN IF l = 0 THEN [ok |-> TRUE, toks |-> <<>>] ELSE ScanFrag(f, l)

RECURSIVE ScanFrom(_, _)
ScanFrom(s, i) ==        \* fragment starting at i
  LET dot == Find(s, ".", i)
      f   == IF dot = 0 THEN From(s, i) ELSE Slice(s, i, dot - 1)
      sf  == ScanFragment(f)
  IN IF dot = 0 THEN sf
     ELSE LET rest == ScanFrom(s, dot + 1)
          IN [ok |-> sf.ok /\ rest.ok, toks |-> sf.toks \o <<".">> \o rest.toks,
              firstbad |-> 0]
Scan(s) == LET r == ScanFrom(s, 1) IN [ok |-> r.ok, toks |-> r.toks]
=====================================================================
