SPECIFICATION FastSpec
CONSTANTS
  Table <- DefaultTable
  Compat = FALSE
  MaxLabel = 99
  Modern <- Ident
  KnownSyms <- Alpha
  Gen = TRUE
  Alphabet <- Alpha
  MaxLen = 4
  Input <- Alpha
INVARIANT InvValence
INVARIANT InvCapIsTable
INVARIANT InvStateBound
INVARIANT InvNoSelfBond
INVARIANT InvNoDoubleEdge
INVARIANT InvOrdersLegal
INVARIANT InvChainForward
INVARIANT InvLabelsLegal
INVARIANT InvLabelsPaired
INVARIANT InvRingsClosed
INVARIANT InvBalanced
INVARIANT InvNoEmptyBranch
INVARIANT InvAllWritten

CHECK_DEADLOCK FALSE
