---- MODULE MC_Dec ----
EXTENDS DecodeCall
Alpha == {"[C]", "[=C]", "[/C]", "[\\N]", "[O]", "[F]", "[Branch1]", "[=Branch1]",
          "[Ring1]", "[=Ring1]", "[-/Ring1]", "[\\/Ring2]", ".", "[Foo]"}
====
