SPECIFICATION FastSpec
CONSTANTS
  Table <- DefaultTable
  Compat = FALSE
  MaxLabel = 99
  Modern <- Ident
  KnownSyms <- Alpha
  Gen = TRUE
  Alphabet <- Alpha
  MaxLen = 4
  Input <- Alpha

CHECK_DEADLOCK FALSE
