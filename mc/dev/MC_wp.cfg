SPECIFICATION FastSpec
CONSTANTS
  Table <- DefaultTable
  Compat = FALSE
  MaxLabel = 99
  KnownSyms <- Alpha
  Gen = TRUE
  Alphabet <- Alpha
  MaxLen = 4
  Input <- Alpha
  FirstSyms <- Alpha
  AllowEmpty = TRUE
INVARIANT InvWriteParseId
INVARIANT InvEmptyOut
CHECK_DEADLOCK FALSE
