"""Shared machinery: running TLC, parsing its output, scratch dirs, evidence files.

Everything the checks need lives under /verif; scratch goes to a fresh mkdtemp
directory that is removed on exit.  The implementation under test is imported
from /repo's working tree (PYTHONPATH is forced), never from a copy.
"""
import atexit
import json
import os
import re
import shutil
import subprocess
import sys
import tempfile
import time
from concurrent.futures import ThreadPoolExecutor

VERIF = os.path.dirname(os.path.dirname(os.path.abspath(__file__)))
SPEC_DIR = os.path.join(VERIF, "spec")
EVID_DIR = os.environ.get("VERIF_EVIDENCE_DIR", os.path.join(VERIF, "evidence"))
REPLAY_DIR = os.path.join(EVID_DIR, "replays")
REPO = os.environ.get("SELFIES_REPO", "/repo")
TLA_JAR = "/opt/veriftools/tla/tla2tools.jar"
TLA_CP = TLA_JAR + ":/opt/veriftools/tla/CommunityModules-deps.jar"
NCPU = os.cpu_count() or 4

_scratch_dirs = []


_ROOT = None


def _sweep_stale():
    """Scratch roots of runs that were killed (their atexit never ran): remove those whose process is gone."""
    base = tempfile.gettempdir()
    try:
        names = os.listdir(base)
    except OSError:
        return
    for nm in names:
        m = re.match(r"selfies_verif_run_(\d+)_", nm)
        if m and not os.path.exists("/proc/%s" % m.group(1)):
            shutil.rmtree(os.path.join(base, nm), ignore_errors=True)


def scratch(prefix="selfies_verif_"):
    """A fresh scratch directory under this process's scratch root (removed at exit)."""
    global _ROOT
    if _ROOT is None or not os.path.isdir(_ROOT):
        _sweep_stale()
        _ROOT = tempfile.mkdtemp(prefix="selfies_verif_run_%d_" % os.getpid())
        _scratch_dirs.append(_ROOT)
    return tempfile.mkdtemp(prefix=prefix, dir=_ROOT)


def _cleanup():
    for d in _scratch_dirs:
        shutil.rmtree(d, ignore_errors=True)


atexit.register(_cleanup)


_T0 = time.time()


def log(msg):
    if os.environ.get("VERIF_VERBOSE"):
        sys.stderr.write("[%7.1fs] %s\n" % (time.time() - _T0, msg))
        sys.stderr.flush()


class MachineryError(Exception):
    """The checking machinery itself failed (exit code 2, never a violation)."""


def seed():
    try:
        return int(os.environ.get("VERIF_SEED", "0"))
    except ValueError:
        return 0


# --------------------------------------------------------------------------
# TLA+ source helpers
# --------------------------------------------------------------------------

def tla_str(s):
    """A Python str as a TLA+ string literal (ASCII only)."""
    out = []
    for ch in s:
        if ch == "\\":
            out.append("\\\\")
        elif ch == '"':
            out.append('\\"')
        elif ch == "\n":
            out.append("\\n")
        elif ch == "\t":
            out.append("\\t")
        elif 32 <= ord(ch) < 127:
            out.append(ch)
        else:
            raise MachineryError("non-ASCII character in TLA+ literal: %r" % s)
    return '"' + "".join(out) + '"'


def tla_set(items):
    return "{" + ", ".join(tla_str(x) for x in items) + "}"


def tla_seq(items):
    return "<<" + ", ".join(tla_str(x) for x in items) + ">>"


def tla_table(table):
    """dict key->int as a TLA+ function."""
    if not table:
        raise MachineryError("empty table")
    return " @@ ".join("(%s :> %d)" % (tla_str(k), v) for k, v in table.items())


# --------------------------------------------------------------------------
# Running TLC
# --------------------------------------------------------------------------

STATS_RE = re.compile(r"^(\d+) states generated, (\d+) distinct states found, (\d+) states left on queue")
DEPTH_RE = re.compile(r"^The depth of the complete state graph search is (\d+)")
COV_RE = re.compile(r"^<(\w+) line \d+, col \d+ to line \d+, col \d+ of module (\w+)>: (\d+):(\d+)")


class TlcResult:
    def __init__(self):
        self.returncode = None
        self.generated = 0
        self.distinct = 0
        self.depth = 0
        self.printed = []       # values printed with PrintT(ToJson(..)), parsed
        self.raw_printed = []   # other PrintT lines
        self.errors = []        # error text blocks
        self.violated = []      # names of violated invariants / properties
        self.coverage = {}      # action -> (distinct, generated)
        self.completed = False
        self.wall = 0.0
        self.log = ""
        self.timed_out = False


def parse_tlc_output(text, res, keep_json=True):
    lines = text.split("\n")
    i = 0
    while i < len(lines):
        ln = lines[i]
        if ln.startswith('"{') or ln.startswith('"['):
            if keep_json:
                try:
                    res.printed.append(json.loads(json.loads(ln)))
                except Exception:
                    res.raw_printed.append(ln)
        elif ln.startswith("Error:") or ln.startswith("Error "):
            blk = [ln]
            j = i + 1
            while j < len(lines) and j < i + 12 and not STATS_RE.match(lines[j]):
                blk.append(lines[j])
                j += 1
            res.errors.append("\n".join(blk))
            m = re.search(r"Invariant (\w+) is violated", ln)
            if m:
                res.violated.append(m.group(1))
            m = re.search(r"Temporal properties were violated|Action property (\w+)", ln)
            if m:
                res.violated.append(m.group(1) or "temporal")
        else:
            m = STATS_RE.match(ln)
            if m:
                res.generated, res.distinct = int(m.group(1)), int(m.group(2))
            m = DEPTH_RE.match(ln)
            if m:
                res.depth = int(m.group(1))
            m = COV_RE.match(ln)
            if m:
                a = m.group(1)
                old = res.coverage.get(a, (0, 0))
                res.coverage[a] = (old[0] + int(m.group(3)), old[1] + int(m.group(4)))
            if "Model checking completed. No error has been found." in ln:
                res.completed = True
            if ln.startswith("Finished computing initial states") or "states generated" in ln:
                pass
        i += 1
    return res


def run_tlc(workdir, module, cfg_text, workers=1, extra=(), timeout=3600, heap="3g",
            cfg_name=None, keep_json=True, env_extra=None, simulate=None, gcthreads=2,
            stdout_path=None, fastjit=False):
    """Run TLC on workdir/module.tla with the given cfg text.  Returns TlcResult."""
    cfg_name = cfg_name or (module + ".cfg")
    with open(os.path.join(workdir, cfg_name), "w") as f:
        f.write(cfg_text)
    meta = tempfile.mkdtemp(prefix="meta_", dir=workdir)
    # many single-worker JVMs run side by side: serial GC and few JIT threads avoid contention
    # (measured: C1-only 4.7 s vs 12.4 s for 14 concurrent short runs; C2 pays off on long runs)
    dflt = "-XX:+UseSerialGC " + ("-XX:TieredStopAtLevel=1" if fastjit else "-XX:CICompilerCount=2")
    if workers > 1:
        dflt = "-XX:+UseParallelGC -XX:ParallelGCThreads=4"
    jvm = os.environ.get("SELFIES_VERIF_JVM", dflt).split()
    cmd = ["java", "-Xmx" + heap, "-Xss16m"] + jvm + [
           "-DTLA-Library=" + SPEC_DIR, "-cp", TLA_CP, "tlc2.TLC",
           "-workers", str(workers), "-metadir", meta, "-noGenerateSpecTE",
           "-config", cfg_name]
    if simulate:
        cmd += ["-simulate", simulate]
    cmd += list(extra) + [module + ".tla"]
    env = dict(os.environ)
    env.pop("JAVA_TOOL_OPTIONS", None)
    if env_extra:
        env.update(env_extra)
    res = TlcResult()
    t0 = time.time()
    try:
        if stdout_path:
            with open(stdout_path, "w") as fo:
                p = subprocess.run(cmd, cwd=workdir, stdout=fo, stderr=subprocess.STDOUT,
                                   timeout=timeout, env=env)
            text = open(stdout_path, errors="replace").read()
        else:
            p = subprocess.run(cmd, cwd=workdir, stdout=subprocess.PIPE, stderr=subprocess.STDOUT,
                               timeout=timeout, env=env)
            text = p.stdout.decode("utf-8", "replace")
        res.returncode = p.returncode
    except subprocess.TimeoutExpired as e:
        res.timed_out = True
        text = (e.stdout or b"").decode("utf-8", "replace") if not stdout_path else \
            open(stdout_path, errors="replace").read()
        res.returncode = -9
    res.wall = time.time() - t0
    shutil.rmtree(meta, ignore_errors=True)
    parse_tlc_output(text, res, keep_json)
    # keep only the non-vector part of the log
    res.log = "\n".join(l for l in text.split("\n") if not (l.startswith('"{') or l.startswith('"[')))[-6000:]
    return res


def run_parallel(jobs, max_procs=None):
    """jobs: list of zero-arg callables returning a result; run them on a thread pool."""
    max_procs = max_procs or NCPU
    with ThreadPoolExecutor(max_workers=max_procs) as ex:
        return list(ex.map(lambda j: j(), jobs))


def tlc_ok(res, what):
    """Machinery-level sanity: TLC ran to completion (violations are handled by the caller)."""
    if res.timed_out:
        raise MachineryError("TLC timed out: %s" % what)
    if res.returncode not in (0, 12, 13) and not res.violated:
        raise MachineryError("TLC failed (%s) rc=%s\n%s" % (what, res.returncode, res.log[-3000:]))


# --------------------------------------------------------------------------
# Evidence
# --------------------------------------------------------------------------

def write_evidence(pid, tier, level, coverage, wall, violations, assumptions):
    os.makedirs(EVID_DIR, exist_ok=True)
    ev = {
        "property_id": pid,
        "tier": tier,
        "seed": seed(),
        "level": level,
        "coverage": coverage,
        "assumptions": assumptions,
        "wall_s": round(wall, 2),
        "violations": violations,
    }
    tmp = os.path.join(EVID_DIR, pid + ".json.tmp")
    with open(tmp, "w") as f:
        json.dump(ev, f, indent=1, ensure_ascii=True, default=str)
    os.replace(tmp, os.path.join(EVID_DIR, pid + ".json"))
    return ev


def save_replay(pid, name, obj):
    os.makedirs(REPLAY_DIR, exist_ok=True)
    path = os.path.join(REPLAY_DIR, "%s_%s.json" % (pid, name))
    with open(path, "w") as f:
        json.dump(obj, f, indent=1, ensure_ascii=True, default=str)
    return path


def load_known_findings():
    p = os.path.join(VERIF, "known_findings.json")
    if not os.path.exists(p):
        return []
    return json.load(open(p)).get("findings", [])


def apalache_obligations(rep, work, modules, runs, note_key="apalache_inductive_invariant"):
    """Run Apalache proof obligations in parallel.  modules: {name: text}; runs: list of
    (what, module name, extra args, want_ok).  An obligation that should hold and is refuted is a
    specification-level violation; a negative configuration that is NOT refuted is a machinery failure;
    if Apalache is absent or does not run, a note is left and nothing is claimed."""
    import shutil as _sh
    if _sh.which("apalache-mc") is None:
        rep.notes["apalache"] = "apalache-mc not found: inductive argument skipped"
        return
    for name, text in modules.items():
        with open(os.path.join(work, name + ".tla"), "w") as f:
            f.write(text)

    def one(i, run):
        what, mod, args, want_ok = run
        try:
            p_ = subprocess.run(["apalache-mc", "check"] + list(args) + ["--out-dir=" + os.path.join(work, "out_%d" % i), mod + ".tla"],
                                cwd=work, stdout=subprocess.PIPE, stderr=subprocess.STDOUT, timeout=900, text=True)
            return p_.stdout
        except subprocess.TimeoutExpired:
            return "TIMEOUT"
    outs = run_parallel([(lambda i=i, r=r: one(i, r)) for i, r in enumerate(runs)], max_procs=6)
    res = []
    for (what, mod, args, want_ok), out in zip(runs, outs):
        ok = "The outcome is: NoError" in out
        err = "The outcome is: Error" in out
        if not ok and not err:
            rep.notes["apalache"] = "apalache did not run (%s): %s" % (what, out[-300:])
            return
        res.append({"obligation": what, "discharged": ok if want_ok else err})
        if want_ok and err:
            rep.violation("specification-level: Apalache refutes '%s'" % what, {"log": out[-1500:]})
        if not want_ok and ok:
            raise MachineryError("negative configuration of the inductive argument was not refuted: " + what)
    rep.notes[note_key] = res
