"""Encoder-side checks: C03 C04 C05 C06 C09 C10 (+ encoder halves of C14, C16)."""
import random
from collections import defaultdict

from common import MachineryError, seed, log
from report import Report
from alphabets import TABLES, ENC_POOL
import dec_engine as de
import gens_smiles as gs

RT_INVARIANTS = ["AroEdgesAgree", "OutInGrammar", "WellFormedOut", "SameAtoms", "SameBonds", "SameMarks", "SameSense",
                 "ReencodeFixpoint", "StrictExact", "TwoOutcomes"]

# SMILES token alphabets (each token = symbol with its preceding bond character)
ENC = {
    "chain": ["C", "=C", "#N", "O", "(", ")", "F", "=O", "N", "[NH4+]", ".", "S"],
    "ring": ["C", "=C", "N", "O", "(", ")", "1", "2", "=1", "%10", "-1", "Cl"],
    "ringbranch": ["C", "(", ")", "1", "2", "Cl", "=C"],
    # every bond order on a ring-closure digit / %nn label, at the opening end, the closing end or both
    "ringorders": ["C", "N", "1", "2", "=1", "#1", "#2", "%10", "#%10", "=%10", "(", ")", "-1"],
    "stereo": ["C", "[C@H]", "[C@@]", "/C", "\\C", "=C", "(", ")", "1", "2", "/1", "F", "[C@]"],
    "bracket": ["[CH3]", "[13C]", "[N+]", "[O-]", "[Fe++]", "[C@@H]", "C", "=[N+]", "(", ")", "[H]", "[2H]", "[Se]", "[nH]", "[O--]", "[N---]"],
    "aro": ["c", "n", "[nH]", "o", "s", "C", "-c", ":c", "(", ")", "1", "2", "[n+]", "=O"],
    "aro2": ["c", "c", "1", "2", "3", "(", ")", "[cH-]", "[c-]", "p", "[o+]", "[c]", "b", "n"],
    "caps": ["C", "=C", "#C", "N", "=N", "O", "=O", "[N+]", "[O-]", "(", ")", "[CH2]", "F", "P", "S", "=S"],
    "aroring": ["c", "c", "n", "o", "1", "2", "-1", "-2", ":1", "=1", "(", ")", "[nH]", "s"],
    "colon": ["C", ":C", "N", ":N", "1", ":1", "(", ")", "c", ":c", "=C", "2"],
    "iso": ["[0C]", "[0CH3]", "[013C]", "[00C]", "[13CH4]", "C", "(", ")", "=O", "[0C@H]", "[2H]", "[0H]", "F"],
    "arocaps": ["c", "n", "o", "[nH]", "s", "1", "(", ")", "C", "=O", "N", "[n+]"],
    "hcaps": ["[NH4]", "[CH5]", "[OH3]", "[BH4]", "C", "N", "=O", ".", "(", ")", "[NH4+]", "[CH3]", "[SiH3]", "[OH2]"],
    # hydrogen counts and charges at the edge of what the two grammars (SMILES bracket atom, SELFIES atom symbol) can
    # spell, under tables whose capacities are large enough for strict mode to accept them
    "hbig": ["[UH9]", "[UH10]", "[PbH12]", "[NH10]", "[U@@H10]", "[UH010]", "[SH9]", "C", "F", "(", ")", "[N+9]", "[NH09]",
             "[1000C]", "[999C]", "[Fe+100]", "[O-100]", "[Fe+99]"],
    # explicit ':' between upper-case atoms and explicit hydrogen atoms, at the capacity limits
    "hcolon": ["C", ":C", "N", ":N", "F", "(", ")", "[H]", "=[H]", "[2H]", "[HH]", "=C", "[CH2]", "[NH2]", "=O", "[H+]"],
    "bad": ["C", "C", "1", "=1", "#1", "(", ")", "%", "[", "]", "=", ".", ":", "*", "c", "X", "[Xx]", "%1"],
    "bad2": ["C", "Cl", "[Fe]", "1", ":1", "c", "(", ")", ":C", "=1", ":%12", "%12"],
}


def tabname(t):
    return t if isinstance(t, str) else "custom"


def group_allowed(vectors):
    allowed = defaultdict(set)
    for v in vectors:
        allowed["".join(v["inp"])].add((v["kind"], v["out"]))
        if v["kind"] == "ok":
            DEC_OF[v["out"]] = v.get("dec", "")
    return allowed


DEC_OF = {}          # specification's decoding of each SELFIES string the specification's encoder emitted


def _enc_replay_chunk(args):
    items, table, strict = args
    de.set_table(table)
    out = []
    try:
        for s, al in items:
            kind, val, why = de.call_encoder(s, strict)
            if (kind, val) not in al:
                out.append(s)
            elif kind == "ok" and val in DEC_OF and de.call_decoder(val) != ("ok", DEC_OF[val]):
                out.append(s)           # the real decoder on the real encoder's output
    finally:
        de.set_table("default")
    return out


ENC_NARROW = [["C", "(", ")", "1", "2"], ["C", "(", ")", "1", "=C"], ["c", "1", "2", "(", ")"], ["C", "/C", "=C", "(", ")"],
              ["C", "1", "=1", "(", ")"], ["C", "N", "(", ")", "."], ["c", "n", "1", "(", ")"], ["C", "1", "2", "3", "="]]


def enc_narrow_deep(rep, quick, own, invariants=None, strict=True):
    """Few tokens, long strings: every SMILES token string over 5 tokens up to 10 / 12 tokens (nested branches with
    ring closures opened and closed at different depths, several rings on one atom, digits after branches)."""
    alphas = [ENC_NARROW[seed() % len(ENC_NARROW)]] if quick else ENC_NARROW
    for i, alpha in enumerate(alphas):
        kw = {} if invariants is None else {"invariants": invariants}
        enc_gen_replay(rep, "narrow_%d" % ENC_NARROW.index(alpha), alpha, "default", 10 if quick else 12, strict=strict, quick=quick, own=own,
                       deep=True, **kw)


def enc_gen_replay(rep, name, alphabet, table, maxlen, strict=True, quick=True, own=("C03",), invariants=RT_INVARIANTS, deep=False):
    """GEN -> REPLAY for the encoder: TLC enumerates every token string, emits the allowed outcomes;
    the real encoder's outcome must be in the allowed set; otherwise the round trip is judged by TraceRT."""
    results, vectors = de.run_decoder_tlc(name, alphabet, table, maxlen, emit=True, emit_name="EncEmit",
                                          spec="EncSpec", extends="EncodeCall", invariants=invariants,
                                          fastjit=quick, strict=strict, deep=deep)
    st = sum(r.distinct for r in results)
    rep.states += st
    rep.transitions += sum(r.generated for r in results)
    for r in results:
        if r.violated:
            rep.violation("specification-level: %s violated in %s" % (r.violated, name), {"errors": r.errors[:2]})
    allowed = group_allowed(vectors)
    del vectors[:]                      # millions of records at the thorough bounds: only the grouped form is kept
    items = list(allowed.items())
    rep.configs.append({"config": name, "alphabet": alphabet, "table": tabname(table), "max_tokens": maxlen,
                        "strict": strict, "distinct_states": st, "inputs": len(items),
                        "accepted_inputs": sum(1 for _, al in items if any(k == "ok" for k, _ in al)),
                        "inputs_with_several_allowed_results": sum(1 for _, al in items if len(al) > 1),
                        "exhaustive": all(r.completed for r in results)})
    de.selfies_mod()
    nch = de.NCPU if len(items) > 20000 else 1
    bad = []
    for part in de.pmap(_enc_replay_chunk, [(c, table, strict) for c in de.chunked(items, nch)]):
        bad.extend(part)
    DEC_OF.clear()                      # per configuration: the workers have used it
    rep.traces += len(items)
    for s, al in items:
        rep.case((name, s), nontrivial=any(k == "ok" for k, _ in al))
    acc = [s for s, al in items if any(k == "ok" for k, _ in al)]
    for s in acc[:: max(1, len(acc) // 2)][:2]:
        rep.sample({"config": name, "smiles": s, "allowed": sorted(allowed[s])})
    if bad:
        judge_roundtrips(rep, name + "_judge", bad[:4000], table, strict, own, spec_allowed=allowed)
    return allowed


def judge_roundtrips(rep, name, smiles_list, table, strict, own, spec_allowed=None, sources=None, ok_sample=None):
    """RECORD -> TRACE for round trips; reports the mismatches that belong to the properties in `own`.
    ok_sample: judge every rejected record but only that many accepted ones (large cage corpora)."""
    recs = de.record_roundtrip(smiles_list, table, strict)
    for rec in recs:
        if rec["kind"].startswith("NotRepeatable"):
            rep.violation("encoder(%r, strict=%s) called twice in a row returns different results: %s" % (
                rec["smi"], strict, rec["kind"]), {"smiles": rec["smi"], "strict": strict, "table": table})
    if ok_sample is not None:
        rng_ = random.Random(seed() + len(recs))
        okr = [r_ for r_ in recs if r_["kind"] == "ok"]
        keep = set(id(r_) for r_ in (okr if len(okr) <= ok_sample else rng_.sample(okr, ok_sample)))
        rep.traces += len(recs)
        rep.configs.append({"config": "recorded_" + name, "records": len(recs), "accepted": len(okr),
                            "judged_by_tlc": sum(1 for r_ in recs if r_["kind"] != "ok" or id(r_) in keep)})
        recs = [r_ for r_ in recs if r_["kind"] != "ok" or id(r_) in keep]
    results, events = de.validate_roundtrip_trace(name, recs, table)
    for r in results:
        rep.states += r.distinct
        rep.transitions += r.generated
    rep.traces += len(recs)
    notes = defaultdict(int)
    other = defaultdict(int)
    for e in events:
        if e.get("ev") == "NOTE":
            notes[e["note"]] += 1
        if e.get("ev") == "MISMATCH":
            rec = recs[e["tid"]]
            if e["prop"] in own:
                if not known_enc_finding(rep, rec, e):
                    rep.violation("%s: encoder(%r, strict=%s) [table %s] -> %s %r, decoder -> %r : %s" % (
                        e["prop"], rec["smi"], strict, tabname(table), rec["kind"], rec["sel"][:200], rec["dec"][:200],
                        e["clause"]), {"smiles": rec["smi"], "strict": strict, "table": table, "record": rec,
                                       "property": e["prop"], "clause": e["clause"],
                                       "source": (sources or {}).get(rec["smi"])})
            else:
                other[e["prop"]] += 1
    for rec in recs:
        if rec["kind"] not in ("ok", "EncoderError") and "C09" in own:
            pass    # reported through the MISMATCH event above
    acc = sum(1 for r in recs if r["kind"] == "ok")
    rep.configs.append({"config": "roundtrip_trace_" + name, "records": len(recs), "accepted": acc,
                        "notes": dict(notes), "mismatches_owned_by_other_properties": dict(other)})
    return recs, events


def known_enc_finding(rep, rec, e):
    for f in rep.findings:
        sig = f.get("signature", "")
        if sig == "encoder:smiles-equals" and rec["smi"] in f.get("inputs", []):
            rep.known(f["id"], f["what"])
            return True
        if sig == "encoder:contains-token" and any(t in rec["smi"] for t in f.get("tokens", [])) \
                and e["clause"] in f.get("clauses", [e["clause"]]):
            rep.known(f["id"], f["what"])
            return True
    return False


def corpus_trace(rep, name, quick, own, tables, per_file, variants, files=None, strict=True, flt=None, extra=()):
    rng = random.Random(seed() * 7 + hash(name) % 1000)
    corp = gs.corpus(rng, per_file, variants, files=files)
    corp += [("extra", s) for s in extra]
    if quick:      # the trace judge is quadratic in the size of the molecule: peptides etc. only in the thorough tier
        corp = [(src, s) for src, s in corp if len(s) <= 260 or src == "extra"]
    if flt:
        corp = [(src, s) for src, s in corp if flt(s)]
    seen = set()
    smis = []
    sources = {}
    for src, s in corp:
        if s not in seen:
            seen.add(s)
            smis.append(s)
            sources[s] = src
    for s in smis:
        rep.case((name, s), nontrivial=len(s) > 3)
    for s in smis[:: max(1, len(smis) // 2)][:2]:
        rep.sample({"corpus": name, "smiles": s, "source": sources[s]})
    for tab in tables:
        judge_roundtrips(rep, "%s_%s" % (name, tabname(tab) if isinstance(tab, str) else "relaxed"), smis, tab, strict,
                         own, sources=sources)
    return smis


def relaxed_table():
    sf = de.selfies_mod()
    t = dict(sf.get_preset_constraints("hypervalent"))
    t.update({"P": 7, "P-1": 8, "P+1": 6, "?": 12})
    return t


# --------------------------------------------------------------------------
# C03 - round trip preserves the molecule atom for atom
# --------------------------------------------------------------------------

def check_C03(tier):
    rep = Report("C03", tier)
    quick = tier == "quick"
    rep.notes["rule"] = ("TLC enumerates every SMILES token string up to the bound (malformed prefixes pruned by the "
                         "parser machine), runs Encode -> Decode in the specification with SameAtoms/SameBonds as "
                         "invariants and emits the allowed outcomes; the real encoder must return one of them; dataset "
                         "and built-in molecules in many spellings are recorded and judged by TLC (TraceRT) with the "
                         "specification's reader and decoder; non-trivial = accepted input")
    n = 5 if quick else 6
    own = ("C03", "C02", "C14", "C06")      # strict acceptance of an over-capacity molecule also breaks the round trip
    q = 1 if quick else 0
    enc_gen_replay(rep, "aroring_default", ENC["aroring"], "default", n + 1 - q, quick=quick, own=own + ("C05",))
    enc_gen_replay(rep, "colon_default", ENC["colon"], "default", n, quick=quick, own=own + ("C05",))
    enc_gen_replay(rep, "iso_default", ENC["iso"], "default", n - 1, quick=quick, own=own + ("C10",))
    enc_gen_replay(rep, "hcaps_default", ENC["hcaps"], "default", n - 2, quick=quick, own=own)
    enc_gen_replay(rep, "ringorders_hypervalent", ENC["ringorders"], "hypervalent", n, quick=quick, own=own)
    for alpha, tab, ml in [("chain", "default", n - q), ("ring", "default", n), ("bracket", "default", n - 1 - q),
                           ("ringbranch", "default", n + 2 - q), ("caps", "octet_rule", n - 1 - q), ("aro", "default", n - 1)]:
        enc_gen_replay(rep, "%s_%s" % (alpha, tab), ENC[alpha], TABLES[tab], ml, quick=quick, own=own)
    rng = random.Random(seed() * 1013 + 3)
    for k in range(1 if quick else 4):           # alphabet drawn from a large token pool by VERIF_SEED
        alpha = sorted(rng.sample(ENC_POOL, 11)) + [t for t in ("C", "(", ")", "1") if rng.random() < 0.7]
        enc_gen_replay(rep, "pool%d" % k, sorted(set(alpha)), "default", 4, quick=quick,
                       own=("C03", "C02", "C14", "C04", "C05", "C06", "C10"))
    enc_narrow_deep(rep, quick, own + ("C10", "C04", "C05"))
    import checks_dec
    checks_dec.testsuite_traces(rep, quick, "encoder", own=own + ("C10", "C04", "C05", "C09"))
    corpus_trace(rep, "datasets", quick, own, [relaxed_table()] + ([] if quick else ["default"]), per_file=(14 if quick else 400),
                 variants=(2 if quick else 4),
                 extra=[gs.macrocycle(k) for k in (3, 14, 15, 16, 17, 255, 256, 257, 300)] +
                       [gs.long_branch(k) for k in (0, 15, 16, 17, 255, 256, 300)] +
                       # more than 99 ring closures, then fused / spiro rings: ring numbers reused while others are open
                       ["C1CC1" * 99 + "C1CCC2CCCCC2C1C3CC3C4CCC5CC5C4", "C1CC1" * 100 + "C12CC1C2C34CC3C4"])
    rep.exhaustive = True
    rep.assumptions += ["SMILES subset: what the specification's reader accepts (encoder docstring); inputs the "
                        "library rejects are not counted against C03 (acceptance is not demanded, see DESIGN 5.1)",
                        "RDKit is used only to generate alternative spellings"]
    return rep.finish()


# --------------------------------------------------------------------------
# C04 - stereochemistry
# --------------------------------------------------------------------------

def has_stereo(s):
    return "@" in s or "/" in s or "\\" in s


def check_C04(tier):
    rep = Report("C04", tier)
    quick = tier == "quick"
    rep.notes["rule"] = ("as C03 with alphabets of chiral atoms, '/' '\\\\' bonds and ring digits on stereo atoms; "
                         "SameSense (handedness from the written neighbour order) and SameMarks as invariants; "
                         "stereo-rich molecules re-spelled and judged by TLC; non-trivial = accepted input with a stereo mark")
    n = 5 if quick else 6
    own = ("C04",)
    q = 1 if quick else 0
    enc_gen_replay(rep, "stereo_default", ENC["stereo"], "default", n - q, quick=quick, own=own)
    enc_gen_replay(rep, "stereo_rings", ["[C@]", "[C@@H]", "C", "1", "2", "3", "(", ")", "F", "N", "/C", "=C"], "default",
                   n + 1 - q, quick=quick, own=own)
    enc_gen_replay(rep, "ring_marks", ["C", "/C", "\\C", "=C", "/1", "\\1", "1", "=1", "F", "(", ")", "/2", "2"], "default",
                   n, quick=quick, own=own)
    rng = random.Random(seed() * 1019 + 4)
    stereo_pool = [t for t in ENC_POOL if any(c in t for c in "@/\\")] + ["C", "N", "(", ")", "1", "2", "=C", "F", "3", "O"]
    for k in range(1 if quick else 4):
        alpha = sorted(set(rng.sample(stereo_pool, 12)))
        enc_gen_replay(rep, "stereo_pool%d" % k, alpha, "default", n - q, quick=quick, own=own)
    # marked ring-closure bonds whose ends are 1 / 17 / 300 atoms apart (one, two, three index symbols)
    far = []
    for k in (2, 17, 40, 300):
        far += ["F/C=C/1" + "C" * k + "/1", "C/1=C/" + "C" * k + "C\\1", "F/C=C/1" + "C" * k + "\\1", "C\\1=C/" + "C" * k + "C/1"]
    corpus_trace(rep, "stereo", quick, own + ("C10",), [relaxed_table()], per_file=(40 if quick else 800),
                 variants=(3 if quick else 6), flt=has_stereo, extra=far)
    # every spelling of a stereo ring symbol is a ring symbol for the decoder (all prefixes x Ring1..3)
    import checks_dec
    ring_inputs = []
    for pre in ("-/", "/-", "//", "/\\", "\\/", "\\\\", "-\\", "\\-", "=", "#", ""):
        for L in (1, 2, 3):
            ring_inputs.append(["[C]", "[=C]", "[C]", "[C]", "[C]", "[%sRing%d]" % (pre, L)] + ["[C]"] * (L - 1) + ["[Ring2]", "[O]"])
    checks_dec.trace_validate(rep, "C04_ring_symbols", de.record_decoder(ring_inputs, "default"), "default")
    # strict=False takes the same path through the stereo code
    enc_gen_replay(rep, "stereo_rings_lax", ["[C@]", "[C@@H]", "C", "1", "2", "3", "(", ")", "F", "N", "/C", "=C"], "default",
                   n + 1 - q, strict=False, quick=quick, own=own, invariants=["SameSenseV", "SameMarksV", "TwoOutcomes"])
    corpus_trace(rep, "stereo_lax", quick, own, [relaxed_table()], per_file=(15 if quick else 300),
                 variants=(2 if quick else 4), flt=has_stereo, strict=False)
    rep.exhaustive = True
    return rep.finish()


# --------------------------------------------------------------------------
# C05 - kekulisation
# --------------------------------------------------------------------------

def is_aromatic_smiles(s):
    return any(c in s for c in "cnosp") and any(ch.islower() for ch in s.replace("Cl", "").replace("Br", ""))


FULLERENES = [s for s in gs.BUILTIN if s.startswith("c12c3c4c5c1c1c6") or s.startswith("C12=C3C4=C5C6=C1C7")]


def check_C05(tier):
    rep = Report("C05", tier)
    quick = tier == "quick"
    rep.notes["rule"] = ("TLC enumerates aromatic token strings (all spellings of every small aromatic system), the "
                         "specification allows any valid pi assignment and failure only when none exists; the real "
                         "encoder's outcome must be allowed; fused / bridged / cage systems and aromatic dataset "
                         "molecules in many atom orders are judged by TLC: the implementation's Kekule choice is read "
                         "back and verified, a rejection is checked against a search for an assignment; "
                         "non-trivial = contains an aromatic bond")
    n = 5 if quick else 6
    # a crash (other exception type) on one spelling of an aromatic molecule is also an order-dependent rejection
    own = ("C05", "C09")
    q = 1 if quick else 0
    enc_gen_replay(rep, "aro_default", ENC["aro"], "default", n - q, quick=quick, own=own)
    enc_gen_replay(rep, "aro2_default", ENC["aro2"], "default", n - q, quick=quick, own=own)
    enc_gen_replay(rep, "aro_rings", ["c", "n", "1", "2", "(", ")", "o", "[nH]", "c"], "default", n + 2, quick=quick, own=own)
    enc_gen_replay(rep, "aroring_default", ENC["aroring"], "default", n + 1 - q, quick=quick, own=own + ("C03",))
    enc_gen_replay(rep, "colon_default", ENC["colon"], "default", n, quick=quick, own=own + ("C03",))
    # order independence at scale: many atom orders of fused, bridged and cage systems
    rng = random.Random(seed() * 11 + 5)
    cages = []
    patches = ["c1c2ccc3c4c5c(c3)cccc5c3c(c1ccc3)c24", "c12c3ccc1cccc2cc1c3cc2ccc3c(ccc3)c12",
               "c1cc2ccc3ccc4ccc5ccc1c1c2c3c4c51", "c1ccc2c(c1)c1cccc3cccc2c31", "c1cc2cc3ccc4cc5ccc6cc1c1c2c3c4c5c61"]
    many = []
    for s in FULLERENES + patches:
        many += gs.respell(s, rng, 400 if quick else 3000)
    many = sorted(set(many))
    rep.notes["cage_spellings_recorded"] = len(many)
    judge_roundtrips(rep, "cages_strict", many, relaxed_table(), True, own, ok_sample=(60 if quick else 600))
    judge_roundtrips(rep, "cages_lax", many[:: (3 if quick else 1)], relaxed_table(), False, own, ok_sample=(60 if quick else 600))
    for s in FULLERENES + patches + ["c1cc2cccc3ccc4cccc1c4c32", "c1cc2ccc3cccc4ccc(c1)c2c34", "c1ccc2cccc2cc1",
                           "c1cc2cc3cc4cc5ccccc5cc4cc3cc2cc1", "c1ccc2c(c1)[nH]c1ccccc12", "Cn1cnc2c1c(=O)n(C)c(=O)n2C",
                           "c1ccc2c(c1)c1nc3nc(nc4[nH]c(nc5nc(nc2[nH]1)c1ccccc15)c1ccccc41)c1ccccc13"]:
        cages.append(s)
        cages += gs.respell(s, rng, 25 if quick else 400)
        cages += gs.colon_spelling(s, rng, 6 if quick else 80)      # upper-case atoms with explicit ':' bonds
    for s in ["c1ccccc1-c1ccccn1", "c1ccc(cc1)-c1ccc(cc1)-c1ccccc1", "c1ccc2c(c1)cccc2-c1ccccc1", "Cc1ccc(cc1)-c1ccco1",
              "c1ccc(cc1)C(c1ccccc1)c1ccccc1", "O=C(c1ccccc1)c1ccncc1"]:
        cages += gs.colon_spelling(s, rng, 25 if quick else 300) + gs.respell(s, rng, 5 if quick else 50)
    aro_pool = [t for t in ENC_POOL if t[-1:].islower() or (t.startswith("[") and t[1:2].islower()) or t in
                ("(", ")", "1", "2", "3", "-1", ":1", "=1", "=O", "C", "N", "-c", ":c", "=c", "-n")]
    for k in range(1 if quick else 4):
        alpha = sorted(set(rng.sample(aro_pool, min(12, len(aro_pool)))) | {"c", "1"})
        enc_gen_replay(rep, "aro_pool%d" % k, alpha, "default", n - q, quick=quick, own=own)
    # every small sigma skeleton of aromatic carbons (max degree 3), in several atom orders: odd rings, fused
    # and bridged small systems where augmenting paths run through contracted odd cycles
    graphs = gs.small_graphs(rng, 9 if quick else 13, 25 if quick else 300)
    gsm = []
    for n_, ed in graphs:
        gsm += gs.aromatic_spellings(n_, ed, rng, 3 if quick else 6)
    gsm = sorted(set(gsm))
    rep.notes["small_aromatic_graphs"] = {"graphs": len(graphs), "spellings": len(gsm)}
    for s_ in gsm:
        rep.case(("graph", s_), nontrivial=True)
    judge_roundtrips(rep, "small_graphs", gsm, "default", True, own)
    judge_roundtrips(rep, "small_graphs_lax", gsm[::3], "default", False, own)
    kek_refinement(rep, quick)
    matching_machine(rep, quick, (many[:: (4 if quick else 1)] + gsm + cages)[: (2500 if quick else 40000)])
    corpus_trace(rep, "aromatic", quick, own, [relaxed_table()], per_file=(40 if quick else 600),
                 variants=(3 if quick else 6), flt=is_aromatic_smiles, extra=cages)
    corpus_trace(rep, "aromatic_nonstrict", quick, own, [relaxed_table()], per_file=0, variants=0, strict=False,
                 flt=is_aromatic_smiles, extra=cages[:: (4 if quick else 1)])
    rep.exhaustive = True
    rep.assumptions += ["the pi-bond rule (Encoder!PiClass) decides the standard aromatic kinds; hypervalent, radical "
                        "and exotic centres are 'unspec': either reading is accepted there"]
    return rep.finish()


def kek_refinement(rep, quick):
    """Refinement inside the specification family (spec/KekRefine.tla): the matching ALGORITHM (module Matching),
    run on the subgraph the implementation hands it, implements the encoder machine's Kekule CONTRACT
    (Encoder!KekChoices) in every state in which the encoder machine is about to kekulise - checked by TLC over all
    aromatic token strings of the configuration; two probes guard against vacuity."""
    ring_alpha = ["c", "n", "1", "2", "(", ")", "o", "[nH]", "c"]
    for nm, alpha, ml in (("rings", ring_alpha, 7 if quick else 8), ("aro", ENC["aro"], 4 if quick else 5)):
        results, _ = de.run_decoder_tlc("kekref_" + nm, alpha, "default", ml, spec="EncSpec", extends="KekRefine",
                                        invariants=["KekRefinesMatching"], fastjit=quick)
        st = sum(r.distinct for r in results)
        rep.states += st
        rep.transitions += sum(r.generated for r in results)
        rep.configs.append({"config": "KekRefinesMatching over " + nm, "alphabet": alpha, "max_tokens": ml, "distinct_states": st})
        for r in results:
            if r.violated:
                rep.violation("specification-level: the matching algorithm does not implement the Kekule contract (%s)" % r.violated,
                              {"errors": r.errors[:2]})
    for probe in ("ProbeNeverMatchesRing", "ProbeNeverFails"):
        results, _ = de.run_decoder_tlc("kekprobe", ring_alpha, "default", 6, spec="EncSpec", extends="KekRefine",
                                        invariants=[probe], fastjit=True)
        if not any(probe in r.violated for r in results):
            raise MachineryError("vacuity guard: %s was not violated - the refinement check never saw such a state" % probe)
    rep.notes["kekule_refinement"] = "Matching (algorithm) implements Encoder!KekChoices (contract) in every enumerated Kek state; probes violated as required"


def matching_machine(rep, quick, smiles_for_trace):
    """The matching routine as its own machine (spec/Matching.tla, MatchCall.tla, TraceMatch.tla):
    (1) TLC checks the algorithm - greedy phase, root choice in every order, alternating BFS with blossom
        contraction - on every graph within the bounds;
    (2) a negative configuration (no contraction) must be refuted: the model can see that bug class;
    (3) every graph TLC enumerated is handed to the real find_perfect_matching, the calls are recorded
        (greedy result, every root and path, the result) and TLC validates the records step by step;
    (4) the calls the encoder makes while kekulising aromatic molecules are recorded and validated alike.
    CONTRACT verdicts are C05 violations; DRIFT (the code runs another algorithm than the modelled one) is
    reported in the evidence only."""
    import match_engine as me
    import json as _json
    confs = [("all graphs <=5 nodes, ascending adjacency", dict(sizes=[0, 1, 2, 3, 4, 5], maxdeg=5, orders="asc")),
             ("graphs on 6 nodes, degree <=3, ascending", dict(sizes=[6], maxdeg=3, orders="asc")),
             ("graphs <=4 nodes, every adjacency order", dict(sizes=[0, 1, 2, 3, 4], maxdeg=3, orders="all"))]
    if not quick:
        confs += [("all graphs on 6 nodes, ascending", dict(sizes=[6], maxdeg=5, orders="asc")),
                  ("graphs on 6 nodes, degree <=3, descending", dict(sizes=[6], maxdeg=3, orders="desc")),
                  ("graphs on 7 nodes, degree <=3, ascending", dict(sizes=[7], maxdeg=3, orders="asc")),
                  ("graphs on 5 nodes, degree <=3, every adjacency order", dict(sizes=[5], maxdeg=3, orders="all"))]
    graphs = {}
    seen_contr = seen_aug = seen_none = 0
    for i, (what, kw) in enumerate(confs):
        results, vec = me.run_match_tlc("m%d" % i, emit=True, fastjit=quick, **kw)
        st = sum(r.distinct for r in results)
        rep.states += st
        rep.transitions += sum(r.generated for r in results)
        rep.configs.append({"config": "Matching: " + what, "distinct_states": st, "terminal_runs": len(vec)})
        for r in results:
            if r.violated:
                rep.violation("specification-level (Matching): %s violated on %s" % (r.violated, what), {"errors": r.errors[:2]})
        for v in vec:
            key = _json.dumps(v["g"])
            graphs.setdefault(key, v["pm"])
            seen_contr += v["contr"] > 0 and v["res"] == "matched"
            seen_aug += v["augs"] > 0
            seen_none += v["res"] == "none"
    if not (seen_contr and seen_aug and seen_none):
        raise MachineryError("vacuity guard: the matching model never contracted a blossom on the way to a matching / "
                             "never augmented / never failed (%d %d %d)" % (seen_contr, seen_aug, seen_none))
    # liveness on the small instances
    results, _ = me.run_match_tlc("mlive", sizes=[0, 1, 2, 3, 4] + ([] if quick else [5]), maxdeg=3, orders="asc", liveness=True,
                                  invariants=[], properties=[], fastjit=quick)
    for r in results:
        if r.violated:
            rep.violation("specification-level (Matching): termination violated", {"errors": r.errors[:2]})
    rep.states += sum(r.distinct for r in results)
    # negative control
    results, _ = me.run_match_tlc("mneg", sizes=[5, 6] if quick else [5, 6, 7], maxdeg=3, orders="asc", nocontract=True, fastjit=quick)
    refuted = sorted(set(sum([r.violated for r in results if r.violated], [])))
    if not ({"Complete", "PathAugments"} & set(refuted)):
        raise MachineryError("negative control: the matching model without blossom contraction was not refuted (%s)" % refuted)
    rep.notes["matching_negative_control"] = "without contraction TLC refutes %s" % refuted
    # GEN -> REPLAY -> TRACE
    with me.Recorder() as rec:
        for key in graphs:
            g = _json.loads(key)
            try:
                with de.time_limit(10.0):
                    rec.call(g)
            except BaseException as e:          # a crash or a hang of the routine on an enumerated graph
                rep.violation("find_perfect_matching(%s) raised %s" % (key, type(e).__name__), {"graph": g})
        # beyond the enumeration bound: near-cubic random graphs (8..16 nodes, shuffled adjacency lists) - where
        # augmenting paths have to pass through contracted odd cycles
        rngm = random.Random(seed() * 31 + 7)
        for _ in range(5000 if quick else 60000):
            n_ = rngm.randint(8, 16)
            pairs = [(a, b) for a in range(n_) for b in range(a + 1, n_)]
            rngm.shuffle(pairs)
            g = [[] for _ in range(n_)]
            m_ = int(rngm.uniform(1.2, 1.5) * n_)
            for a, b in pairs:
                if m_ <= 0:
                    break
                if len(g[a]) < 3 and len(g[b]) < 3:
                    g[a].append(b)
                    g[b].append(a)
                    m_ -= 1
            try:
                with de.time_limit(10.0):
                    rec.call(g)
            except BaseException as e:
                rep.violation("find_perfect_matching(%s) raised %s" % (g, type(e).__name__), {"graph": g})
    direct = list(rec.records)
    with me.Recorder() as rec2:
        for s_ in smiles_for_trace:
            de.call_encoder(s_, True)
    viaenc = list(rec2.records)
    rep.notes["matching_calls_recorded"] = {"enumerated_graphs": len(direct), "from_encoder_calls": len(viaenc),
                                            "largest_graph": max([len(r["g"]) for r in viaenc] or [0])}
    drift = 0
    for name, recs in (("direct", direct), ("encoder", viaenc)):
        results, events = me.validate_match_trace(name, recs, fastjit=quick)
        rep.states += sum(r.distinct for r in results)
        rep.transitions += sum(r.generated for r in results)
        rep.traces += len(recs)
        for e in events:
            r_ = recs[e["tid"]]
            if e["ev"] == "CONTRACT":
                rep.violation("find_perfect_matching(%s): %s" % (_json.dumps(r_["g"])[:300], e["clause"]),
                              {"graph": r_["g"], "events": r_["ev"], "clause": e["clause"]})
            else:
                drift += 1
                if drift <= 3:
                    rep.notes.setdefault("matching_drift_samples", []).append({"graph": r_["g"], "clause": e["clause"]})
    # brute-force cross-check of "None": the enumerated graphs carry HasPM from the model checker
    for r_ in direct:
        pm = graphs.get(_json.dumps(r_["g"]))
        ok = r_["ev"][-1]["ok"]
        if pm is not None and pm != ok:
            rep.violation("find_perfect_matching(%s) %s but a perfect matching %s" % (
                _json.dumps(r_["g"]), "returned a list" if ok else "returned None", "exists" if pm else "does not exist"),
                {"graph": r_["g"], "events": r_["ev"]})
    rep.notes["matching_algorithm_conformance"] = ("every recorded step is a step of the model" if drift == 0 else
                                                   "%d recorded steps are not steps of the modelled algorithm: the design-level "
                                                   "results hold for the model only; the contract is still judged" % drift)


# --------------------------------------------------------------------------
# C06 - strict encoding rejects exactly the constraint-violating molecules
# --------------------------------------------------------------------------

def check_C06(tier):
    rep = Report("C06", tier)
    quick = tier == "quick"
    rep.notes["rule"] = ("TLC enumerates molecules at / below / above capacities under table families, strict on and "
                         "off, with StrictExact as invariant; vectors replayed with the table set through the public "
                         "API; strict=False results compared across tables; non-trivial = accepted by the parser")
    n = 5 if quick else 6
    own = ("C06",)
    tabs = {"hypervalent": "hypervalent", "default": "default", "octet": "octet_rule", "tight": TABLES["tight"],
            "charged": {"C": 4, "N": 3, "N+1": 4, "O": 2, "O-1": 1, "F": 1, "P": 3, "S": 2, "H": 1, "?": 2}}
    per_table = {}
    # lone atoms and fragments whose explicit hydrogens alone exceed the capacity
    for tname in ("default", "charged"):
        enc_gen_replay(rep, "hcaps_%s" % tname, ENC["hcaps"], tabs[tname], n - 2, strict=True, quick=quick, own=own,
                       invariants=["StrictExact", "TwoOutcomes", "OutInGrammar", "SameAtoms", "SameBonds"])
    # explicit ':' bonds between upper-case atoms (kekulised before the strict check) and explicit hydrogen atoms
    for tname, tab in (("default", "default"), ("c3", {"C": 3, "F": 1, "N": 3, "H": 1, "O": 2, "?": 8}), ("h0", {"C": 4, "N": 3, "H": 0, "H+1": 0, "O": 2, "F": 1, "?": 8})):
        enc_gen_replay(rep, "hcolon_%s" % tname, ENC["hcolon"], tab, n - 2 if quick else n - 1, strict=True, quick=quick, own=own,
                       invariants=["StrictExact", "TwoOutcomes"])
    # aromatic atoms against tight capacities (the strict check sees the kekulised molecule)
    arotabs = {"one": {"C": 1, "N": 1, "O": 1, "S": 1, "N+1": 2, "?": 1}, "two": {"C": 3, "N": 2, "O": 1, "S": 2, "N+1": 3, "?": 2}}
    for tname, tab in arotabs.items():
        enc_gen_replay(rep, "arocaps_%s" % tname, ENC["arocaps"], tab, n - 1, strict=True, quick=quick, own=own,
                       invariants=["StrictExact", "TwoOutcomes"])
    for tname, tab in tabs.items():
        if quick and tname == "octet":
            continue
        for strict in (True, False):
            al = enc_gen_replay(rep, "caps_%s_%s" % (tname, "strict" if strict else "lax"), ENC["caps"], tab, n - 1,
                                strict=strict, quick=quick, own=own,
                                invariants=["StrictExact", "TwoOutcomes", "OutInGrammar"] + (["SameAtoms", "SameBonds"] if strict else []))
            per_table[(tname, strict)] = al
    # strict=False: the returned SELFIES does not depend on the table at all (specification level)
    lax = [v for (t, s), v in per_table.items() if not s]
    for other in lax[1:]:
        for smi, al in lax[0].items():
            if other.get(smi) != al:
                raise MachineryError("specification: strict=False result depends on the table for %r" % smi)
    # ... and in the implementation, including a table switched between calls (history aspect)
    sf = de.selfies_mod()
    smis = [s for s, al in lax[0].items() if any(k == "ok" for k, _ in al)]
    # atoms whose explicit hydrogens alone exceed a capacity: strict=False must treat them under every table alike
    hl = enc_gen_replay(rep, "hcaps_lax", ENC["hcaps"], "default", n - 2, strict=False, quick=quick, own=own,
                        invariants=["StrictExact", "TwoOutcomes"])
    smis += [s for s, al in hl.items() if any(k == "ok" for k, _ in al)]
    rng = random.Random(seed() + 6)
    rng.shuffle(smis)
    smis = smis[: (3000 if quick else 30000)]
    ref = {}
    try:
        for tab in list(tabs.values()) + [{"C": 6, "N": 5, "O": 4, "B": 5, "Si": 1, "?": 1}, "hypervalent", "default"]:
            sf.set_semantic_constraints(tab if isinstance(tab, str) else dict(tab))
            for s in smis:
                out = de.call_encoder(s, strict=False)[:2]
                rep.traces += 1
                if ref.setdefault(s, out) != out:
                    rep.violation("encoder(%r, strict=False) depends on the constraint table: %r vs %r" % (s, ref[s], out),
                                  {"smiles": s, "table": tab})
                if out[0] != "ok" and de.call_encoder(s, strict=False)[2] == "constraints":
                    rep.violation("strict=False raised a constraint error for %r" % s, {"smiles": s})
    finally:
        sf.set_semantic_constraints("default")
    # history: the same inputs strict-encoded in ONE process under a loose table first, then under tighter
    # ones and back (a memo of an earlier verdict must not survive a table change)
    strict_tabs = [t for (t, s_) in per_table if s_]
    order = [t for t in ("hypervalent", "default", "charged", "tight", "hypervalent", "octet", "default") if t in strict_tabs]
    probe = sorted(per_table[(order[0], True)])
    rng.shuffle(probe)
    probe = probe[: (4000 if quick else 40000)]
    rejected = [{"C": 9, "N": 9, "O": 9, "F": 9, "Cl": -1, "?": 12}, {"C": 1, "N": 1}, {"C": 8, "Xx": 1, "?": 8}, {"?": 2.5, "C": 1},
                {"C+01": 2, "C": 8, "?": 8}, "no_such_preset"]
    try:
        for oi, tname in enumerate(order):
            tab = tabs[tname]
            sf.set_semantic_constraints(tab if isinstance(tab, str) else dict(tab))
            # an update the library must reject (and whose ValueError the caller catches) changes nothing
            bad_t = rejected[oi % len(rejected)]
            try:
                sf.set_semantic_constraints(bad_t if isinstance(bad_t, str) else dict(bad_t))
                rep.violation("set_semantic_constraints(%r) was accepted" % (bad_t,), {"table": bad_t})
                sf.set_semantic_constraints(tab if isinstance(tab, str) else dict(tab))
            except ValueError:
                pass
            al = per_table[(tname, True)]
            for s in probe:
                out = de.call_encoder(s, strict=True)[:2]
                rep.traces += 1
                if s in al and out not in al[s]:
                    rep.violation("encoder(%r, strict=True) under table %s after calls under other tables and a rejected update: %r, allowed %r" % (
                        s, tname, out, sorted(al[s])), {"smiles": s, "table": tab, "order": order})
    finally:
        sf.set_semantic_constraints("default")
    # realistic molecules near capacity limits under the presets
    corpus_trace(rep, "presets", quick, own, ["default", "octet_rule", "hypervalent", arotabs["two"]],
                 per_file=(15 if quick else 250), variants=1)
    rep.exhaustive = True
    return rep.finish()


# --------------------------------------------------------------------------
# C09 - the encoder is total and terminates
# --------------------------------------------------------------------------

FUZZ_SMILES_CHARS = list("CNOcnosFClBr()[]123456789%=#:/\\.+-@H*$ {}") + ["é", "²", "٣", "½", "€", "①", "一", "{}", "{0}", "%s"]


def big_number_smiles():
    """Bracket atoms whose isotope / hydrogen count / charge has 20 ... 5000 digits, alone and inside chains,
    rings and aromatic rings (float conversions, digit limits and size-dependent paths)."""
    out = []
    fields = [("[%sC]", "isotope"), ("[CH%s]", "h"), ("[C+%s]", "plus"), ("[C-%s]", "minus"), ("[%sc]", "aro isotope"),
              ("[nH%s]", "aro h"), ("[n+%s]", "aro plus"), ("[n-%s]", "aro minus"), ("[c+%s]", "aro c plus"), ("[13C@H%s]", "chiral h")]
    ctxs = ["%s", "C%sC", "C=%s", "%s1CC1", "c1cc%sc1", "c1ccc%scc1", "C(%s)(C)C", "c1cc2cc%sc2cc1"]
    for tmpl, what in fields:
        for nd in (20, 310, 400, 4299, 4301, 5000):
            for dig in ("9", "1"):
                atom = tmpl % (dig * nd)
                for c in ctxs:
                    out.append(("%s with %d digits in %s" % (what, nd, c % "X"), c % atom))
    return out


def check_C09(tier):
    import time as _time
    rep = Report("C09", tier)
    quick = tier == "quick"
    rep.notes["rule"] = ("design side: the encoder machine has two terminal outcomes and terminates (TLC liveness); "
                         "code side: every enumerated token string incl. ring-closure pathologies, and fuzzed text, "
                         "x {strict, attribute} returns or raises EncoderError within a time bound; "
                         "non-trivial = at least 2 tokens")
    sf = de.selfies_mod()
    n = 4 if quick else 5
    results, _ = de.run_decoder_tlc("enc_live", ENC["ring"][:9], "default", 4, spec="EncFair", extends="EncodeCall",
                                    properties=["EncTerminates"], invariants=["TwoOutcomes"], fastjit=quick)
    rep.states += sum(r.distinct for r in results)
    rep.transitions += sum(r.generated for r in results)
    rep.configs.append({"config": "liveness EncTerminates", "distinct_states": sum(r.distinct for r in results)})
    for r in results:
        if r.violated:
            rep.violation("specification-level: %s" % r.violated, {"errors": r.errors[:2]})

    def totality(s, budget=20.0):
        for strict in (True, False):
            for attr in (False, True):
                t0 = _time.time()
                kind, val, why = de.call_encoder(s, strict, attr)
                dt = _time.time() - t0
                rep.traces += 1
                if kind not in ("ok", "EncoderError"):
                    yield "encoder(%r, strict=%s, attribute=%s) raised %s" % (s[:150], strict, attr, kind)
                if dt > budget:
                    yield "encoder took %.1fs on %d characters" % (dt, len(s))

    for alpha in ("bad", "bad2", "ring", "aro2", "bracket"):
        results, vectors = de.run_decoder_tlc("tot_" + alpha, ENC[alpha], "default", n + 1 if alpha == "bad2" else n, emit=True, emit_name="EncEmit",
                                              spec="EncSpec", extends="EncodeCall", invariants=["TwoOutcomes"], fastjit=quick)
        rep.states += sum(r.distinct for r in results)
        rep.transitions += sum(r.generated for r in results)
        inputs = sorted(set("".join(v["inp"]) for v in vectors))
        rep.configs.append({"config": "tot_" + alpha, "alphabet": ENC[alpha], "max_tokens": n, "inputs": len(inputs)})
        for s in inputs:
            rep.case((alpha, s), nontrivial=len(s) >= 2)
            for msg in totality(s):
                rep.violation(msg, {"input": s})
        for s in inputs[:: max(1, len(inputs) // 2)][:2]:
            rep.sample({"config": alpha, "text": s})
    rng = random.Random(seed() * 5 + 9)
    # termination on small aromatic skeletons with odd and fused rings (matching with blossoms)
    graphs = gs.small_graphs(rng, 10 if quick else 14, 30 if quick else 300)
    old_budget = de.CALL_BUDGET
    de.CALL_BUDGET = 15.0
    try:
        for n_, ed in graphs:
            for s_ in gs.aromatic_spellings(n_, ed, rng, 2 if quick else 5):
                rep.case(("graph", s_), nontrivial=True)
                for msg in totality(s_, budget=10.0):
                    rep.violation(msg, {"input": s_})
    finally:
        de.CALL_BUDGET = old_budget
    # many atom orders of cage systems: nested odd-cycle contractions must terminate and must not crash
    cage_sp = []
    for s_ in FULLERENES + ["c12cc3c4c5c1c5c1c2c(c1)c43", "c1c2ccc3c4c5c(c3)cccc5c3c(c1ccc3)c24"]:
        cage_sp += gs.respell(s_, rng, 1500 if quick else 8000)
    old_budget = de.CALL_BUDGET
    de.CALL_BUDGET = 20.0
    try:
        for s_ in sorted(set(cage_sp)):
            for strict in (True, False):
                kind = de.call_encoder(s_, strict)[0]
                rep.traces += 1
                if kind not in ("ok", "EncoderError"):
                    rep.violation("encoder(%r, strict=%s): %s" % (s_, strict, kind), {"input": s_})
    finally:
        de.CALL_BUDGET = old_budget
    fuzz = []
    for _ in range(800 if quick else 8000):
        fuzz.append("".join(rng.choice(FUZZ_SMILES_CHARS) for _ in range(rng.randint(0, 30))))
    base = [s for s in gs.BUILTIN]
    for _ in range(400 if quick else 4000):
        s = rng.choice(base)
        for _ in range(rng.randint(1, 3)):
            p = rng.randint(0, len(s))
            s = s[:p] + rng.choice(FUZZ_SMILES_CHARS) + s[p + rng.randint(0, 1):]
        fuzz.append(s)
    for s in fuzz:
        rep.case(("fuzz", s), nontrivial=len(s) >= 2)
        for msg in totality(s):
            rep.violation(msg, {"input": s})
    # the ASCII part of the fuzz goes through TLC as round-trip records (accepted ones are judged fully)
    asc = [s for s in fuzz if s and all(32 < ord(c) < 127 and c not in '"' for c in s)]
    judge_roundtrips(rep, "fuzz", asc[: (600 if quick else 5000)], "default", True, ("C09",))
    big = [("long chain", "C" * (20000 if quick else 100000)), ("deep branches", "C(" * 400 + "C" + ")" * 400),
           # branches that are followed by further atoms really nest (a trailing branch is a chain continuation)
           ("nested branches 600", "C" + "(C" * 600 + ")F" * 600), ("nested branches 1500", "C" + "(C" * 1500 + ")F" * 1500),
           ("nested branches 5000", "C" + "(C" * 5000 + ")F" * 5000),
           ("deeper branches", "C(" * 3000 + "C" + ")" * 3000), ("many rings", "C1CC1" * 3000),
           ("wide ring", gs.macrocycle(5000)), ("isotope digits", "[" + "1" * 5000 + "C]"),
           ("charge signs", "[C" + "+" * 5000 + "]"), ("dots", "C." * 5000 + "C"), ("brackets", "[" * 3000),
           ("long aromatic", "c1ccccc1" * 1000), ("polyacene", "c1ccc2cc3cc4cc5cc6cc7ccccc7cc6cc5cc4cc3cc2c1")]
    bn = big_number_smiles()
    if quick:
        bn = bn[seed() % 2::2]
    rep.notes["big_number_inputs"] = len(bn)
    for what, s in big + bn:
        for msg in totality(s, budget=90.0):
            f = [x for x in rep.findings if x.get("signature") == "encoder:nesting-deeper-than-recursion-limit"]
            if "RecursionError" in msg and "branches" in what and f:
                rep.known(f[0]["id"], f[0]["what"])
            else:
                rep.violation("%s: %s" % (what, msg), {"input_description": what, "length": len(s)})
    rep.notes["big_inputs"] = [w for w, _ in big]
    rep.exhaustive = True
    rep.assumptions += ["termination of the code is observed with a time bound, not proved",
                        "non-ASCII text is judged on the exception type only"]
    return rep.finish()


# --------------------------------------------------------------------------
# C10 - encoder output decodable, standardised, stable under re-encoding
# --------------------------------------------------------------------------

def check_C10(tier):
    import checks_dec
    rep = Report("C10", tier)
    quick = tier == "quick"
    rep.notes["rule"] = ("OutInGrammar / ReencodeFixpoint as invariants of the round-trip pipeline over all token strings "
                         "up to the bound; constant-level: spelling and parsing of atoms agree over a finite atom domain "
                         "(every chirality, H 0..9, charges up to three digits incl. 0 digits, isotopes); dataset "
                         "molecules and index values needing 1, 2, 3 symbols recorded and judged by TLC; "
                         "non-trivial = accepted input")
    bad = checks_dec.const_checks(rep, impl=False)
    n = 5 if quick else 6
    own = ("C10", "C14", "C06")     # strict acceptance of an over-capacity molecule also breaks re-encoding stability
    inv = ["OutInGrammar", "WellFormedOut", "ReencodeFixpoint", "TwoOutcomes"]
    enc_gen_replay(rep, "bracket_default", ENC["bracket"], "default", n - 1, quick=quick, own=own, invariants=inv)
    enc_gen_replay(rep, "hcaps_default", ENC["hcaps"], "default", n - 2, quick=quick, own=own, invariants=inv)
    enc_gen_replay(rep, "iso_default", ENC["iso"], "default", n - 1, quick=quick, own=own, invariants=inv)
    enc_gen_replay(rep, "ring_marks", ["C", "/C", "\\C", "=C", "/1", "\\1", "1", "=1", "F", "(", ")", "/2", "2"], "default",
                   n, quick=quick, own=own, invariants=inv)
    rng = random.Random(seed() * 1021 + 10)
    for k in range(1 if quick else 4):
        alpha = sorted(set(rng.sample(ENC_POOL, 11)) | {"C", "(", ")"})
        enc_gen_replay(rep, "pool%d" % k, alpha, rng.choice(["default", "octet_rule", "hypervalent"]), 4, quick=quick, own=own, invariants=inv)
    enc_gen_replay(rep, "ringbranch_default", ENC["ringbranch"], "default", n + 2, quick=quick, own=own, invariants=inv)
    enc_narrow_deep(rep, quick, own, invariants=inv)
    from alphabets import TABLES as _T
    for strict in (True, False):
        enc_gen_replay(rep, "hbig_wide_%s" % strict, ENC["hbig"], _T["wide"], 3 if quick else 4, strict=strict, quick=quick, own=own,
                       invariants=["OutInGrammar", "WellFormedOut", "TwoOutcomes"] + (["ReencodeFixpoint"] if strict else []))
    enc_gen_replay(rep, "stereo_default", ENC["stereo"], "default", n - 1, quick=quick, own=own, invariants=inv)
    # equivalent spellings of an atom give the same symbol
    sf = de.selfies_mod()
    groups = [["[N+]", "[N+1]", "[N+01]"], ["[CH]", "[CH1]"], ["[Fe++]", "[Fe+2]"], ["[O-]", "[O-1]"], ["[O--]", "[O-2]"],
              ["[13CH4]", "[013CH4]"], ["[C@@H]", "[C@@H1]"], ["[Cu+2]", "[Cu++]"], ["[Fe+10]", "[Fe++++++++++]"],
              ["[C-10]", "[C----------]"], ["[NH4+]", "[NH4+1]"], ["[C+0]", "[C]", "[C-0]"], ["[C:1]", "[C]"]]
    for g in groups:
        outs = {s: de.call_encoder(s)[:2] for s in g}
        rep.traces += len(g)
        if len(set(outs.values())) != 1 or any(k != "ok" for k, _ in outs.values()):
            rep.violation("equivalent spellings give different symbols: %r" % outs, {"spellings": g})
        for s in g:
            kind, sel, _ = de.call_encoder(s)
            if kind == "ok" and de.call_decoder(sel)[0] != "ok":
                rep.violation("encoder(%r) = %r is rejected by the decoder" % (s, sel), {"smiles": s})
    extra = [gs.macrocycle(k) for k in ([1, 14, 15, 16, 17, 100, 254, 255, 256, 257] if quick else
                                        list(range(1, 40)) + list(range(250, 262)) + [400])]
    extra += [gs.long_branch(k) for k in ([0, 14, 15, 16, 255, 256, 257] if quick else
                                          list(range(0, 40)) + list(range(250, 262)) + [400])]
    extra += ["[Fe+10]C", "[C-10]", "[Fe+20]", "[235U+6]", "[13CH3][C@@H]([NH3+])C(=O)[O-]", "[Cu+2].[O-]S(=O)(=O)[O-]"]
    corpus_trace(rep, "datasets", quick, own, [relaxed_table(), "default"], per_file=(25 if quick else 400),
                 variants=(2 if quick else 4), extra=extra)
    rep.exhaustive = True
    return rep.finish()


# --------------------------------------------------------------------------
# encoder halves of C16 and C14
# --------------------------------------------------------------------------

BIG_INDEX = [4096, 4097, 4100, 4111, 4112, 4351, 4352, 8191, 8192, 12345, 65535, 65536, 70000]


def index_table_from_spec():
    """IndexSymbols(n) for all n < 16^3, evaluated by TLC (the specification's table, not a Python copy)."""
    text = ("---- MODULE IndexTable ----\nEXTENDS Constraints, Json\n"
            "Big == <<" + ", ".join(str(b) for b in BIG_INDEX) + ">>\n"
            "ASSUME PrintT(ToJson([tab |-> [n \\in 1..4096 |-> IndexSymbols(n - 1)], "
            "big |-> [i \\in 1..Len(Big) |-> IndexSymbols(Big[i])]]))\n"
            "VARIABLE x\nInit == x = 0\nNext == UNCHANGED x\nSpec == Init /\\ [][Next]_x\n====\n")
    r, failed = de.run_const_checks(text, "IndexTable")
    for v in r.printed:
        if isinstance(v, dict) and "tab" in v:
            return r, v["tab"], v["big"]
    raise MachineryError("IndexTable not produced:\n" + r.log[-1500:])


def index_encoder_side(rep, quick):
    """C16 through the public encoder: ring spans and branch lengths for every index value; the emitted
    index symbols must be the specification's IndexSymbols(n), and the round trip (TLC) must close the
    ring / end the branch at the right atom."""
    r, tab, big = index_table_from_spec()
    rep.add_tlc(r, "IndexSymbols table (TLC)")
    for k_ in range(4):          # other API calls first: the index tables are module-level data
        de.api_noise(k_)
    # sampled larger n: the conversion itself has no three-symbol limit (the ring symbol then reads [Ring4] ...)
    for n_, want in zip(BIG_INDEX, big):
        if quick and n_ > 13000:
            continue
        kind, sel, _ = de.call_encoder(gs.macrocycle(n_))
        rep.traces += 1
        tail = "[Ring%d]" % len(want) + "".join(want)
        if kind != "ok" or not sel.endswith(tail):
            rep.violation("encoder(ring of %d atoms) does not end with %s: %s" % (n_ + 2, tail, sel[-80:] if kind == "ok" else kind), {"n": n_})
    ns = list(range(0, 300)) + list(range(304, 4096, 16)) + [255, 256, 257, 4094, 4095] if quick else list(range(0, 4096))
    ns = sorted(set(ns))
    for k in ns:
        want = tab[k]
        kind, sel, _ = de.call_encoder(gs.macrocycle(k))
        rep.traces += 1
        tail = "[Ring%d]" % len(want) + "".join(want)
        if k >= 1 and (kind != "ok" or not sel.endswith(tail)):
            rep.violation("encoder(ring of %d atoms) does not end with %s: %s" % (k + 2, tail, sel[-70:]), {"n": k})
        if k < (1500 if quick else 4094):
            kind, sel, _ = de.call_encoder(gs.long_branch(k))
            rep.traces += 1
            head = "[C][Branch%d]" % len(want) + "".join(want)
            if kind != "ok" or not sel.startswith(head):
                rep.violation("encoder(branch of %d atoms) does not start with %s: %s" % (k + 1, head, sel[:70]), {"n": k})
    rep.notes["encoder_index_values"] = len(ns)
    # n far beyond what a molecule (or a 32-bit TLC integer) holds: the conversion functions themselves, compared
    # digit by digit with the hexadecimal expansion - the code must stay the SHORTEST one (no leading zero digit)
    # and decode to n; the all-n argument is IndexAbs, this binds the code to it near every power of 16
    try:
        from alphabets import IDX as _IDX
        import selfies.grammar_rules as _gr
        enc_f, dec_f = _gr.get_selfies_from_index, _gr.get_index_from_selfies
    except Exception:
        enc_f = dec_f = None
        rep.notes["big_index_functions"] = "conversion functions not found under their names: skipped"
    if enc_f is not None:
        rngb = random.Random(seed() + 1616)
        cand = set()
        for k in range(1, 40):
            for dlt in (-2, -1, 0, 1, 15, 16, 17):
                cand.add(16 ** k + dlt)
            cand.add(rngb.randrange(16 ** k, 16 ** (k + 1)))
            cand.add(int("f" * k + "0" + "f" * rngb.randint(0, 3), 16))
        for n_ in sorted(c for c in cand if c >= 0):
            want = [_IDX[int(ch, 16)] for ch in "%x" % n_]
            try:
                got = list(enc_f(n_))
                back = dec_f(*got)
            except Exception as e:
                rep.violation("index conversion raised %s for n = %d" % (type(e).__name__, n_), {"n": str(n_)})
                continue
            rep.traces += 1
            if got != want or back != n_:
                rep.violation("index code of n = %d (hex %x): %s, expected the %d digits %s; decodes to %s" % (
                    n_, n_, "".join(got)[:120], len(want), "".join(want)[:120], back), {"n": str(n_)})
    # placement judged by TLC on moderate sizes (trace validation cost grows quadratically with the ring)
    small = [k for k in ns if k <= (40 if quick else 120)] + ([255, 256, 257] if not quick else [])
    smis = [gs.macrocycle(k) for k in small if k >= 1] + [gs.long_branch(k) for k in small]
    judge_roundtrips(rep, "index_encoder", smis, "default", True, ("C03", "C10", "C16", "C02"))


def encoder_outputs_well_formed(rep, quick):
    rng = random.Random(seed() + 1414)
    corp = gs.corpus(rng, 10 if quick else 150, 1)
    smis = sorted(set(s for _, s in corp))
    judge_roundtrips(rep, "encoder_outputs", smis, relaxed_table(), True, ("C14", "C10"))
    sf = de.selfies_mod()
    for s in smis:
        kind, sel, _ = de.call_encoder(s, strict=False)
        if kind == "ok":
            toks = list(sf.split_selfies(sel))
            rep.traces += 1
            if "".join(toks) != sel or sf.len_selfies(sel) != len(toks):
                rep.violation("split_selfies / len_selfies disagree on encoder output %r" % sel[:200], {"smiles": s})
