"""C19: concurrent translation calls (Threads.tla + SCHED engine)."""
import json
import os
import random
import signal
import sys
import threading
import time

from common import MachineryError, seed, scratch, run_tlc, tlc_ok, tla_set, tla_seq, NCPU, log
from report import Report
import dec_engine as de
import gens


# --------------------------------------------------------------------------
# TLC side
# --------------------------------------------------------------------------

def run_threads_tlc(name, calls, precached, store_instance=False, emit=False, invariants=(), properties=(),
                    spec="ThSpec", timeout=1800):
    work = scratch("threads_%s_" % name)
    with open(os.path.join(work, "ThreadParams.tla"), "w") as f:
        f.write("---- MODULE ThreadParams ----\nCalls == << %s >>\nPreCached == %s\nStoreInstance == %s\n====\n" % (
            ", ".join(tla_seq(c) for c in calls), tla_set(precached), "TRUE" if store_instance else "FALSE"))
    with open(os.path.join(work, "MC_threads.tla"), "w") as f:
        f.write("---- MODULE MC_threads ----\nEXTENDS Threads\n====\n")
    cfg = ["SPECIFICATION " + spec] + ["INVARIANT " + i for i in invariants] + ["PROPERTY " + p for p in properties]
    if emit:
        cfg.append("INVARIANT ThEmit")
    else:
        cfg.append("VIEW ThView")
    cfg.append("CHECK_DEADLOCK FALSE")
    r = run_tlc(work, "MC_threads", "\n".join(cfg) + "\n", workers=(NCPU if not properties else 4), timeout=timeout,
                heap="6g", stdout_path=os.path.join(work, "out.txt"), keep_json=emit)
    tlc_ok(r, name)
    vec = [v for v in r.printed if isinstance(v, dict) and "sched" in v]
    r.printed = []
    return r, vec


# --------------------------------------------------------------------------
# running something in a fresh forked child (fresh module-level state of the library)
# --------------------------------------------------------------------------

def in_child(fn, timeout=60):
    """Run fn() in a forked child; returns its JSON-able result or ('CHILD-FAIL', reason)."""
    rd, wr = os.pipe()
    pid = os.fork()
    if pid == 0:
        try:
            os.close(rd)
            signal.alarm(timeout)
            try:
                res = fn()
            except BaseException as e:       # noqa
                res = ["CHILD-EXC", type(e).__name__, str(e)[:300]]
            with os.fdopen(wr, "w") as f:
                json.dump(res, f)
        finally:
            os._exit(0)
    os.close(wr)
    with os.fdopen(rd) as f:
        data = f.read()
    _, status = os.waitpid(pid, 0)
    if not data:
        return ["CHILD-FAIL", "no result (status %d: killed by timeout or crash)" % status]
    return json.loads(data)


def call_by_spec(spec):
    kind, x = spec[0], spec[1]
    if kind == "dec":
        return list(de.call_decoder(x))
    if kind == "decattr":
        k, v = de.call_decoder(x, False, True)
        return [k, v[0] if k == "ok" else ""]
    if kind == "enc":
        return list(de.call_encoder(x, True)[:2])
    if kind == "enclax":
        return list(de.call_encoder(x, False)[:2])
    raise ValueError(kind)


# --------------------------------------------------------------------------
# SCHED 1: model schedules forced onto real threads at the cache hooks
# --------------------------------------------------------------------------

class HookSched:
    def __init__(self, n):
        self.sems = [threading.Semaphore(0) for _ in range(n)]
        self.ctl = threading.Semaphore(0)
        self.at = [None] * n
        self.tids = {}
        self.res = [None] * n

    def listener(self, ev, sym):
        tid = self.tids.get(threading.get_ident())
        if tid is None:
            return
        self.at[tid] = [ev, sym]
        self.ctl.release()
        self.sems[tid].acquire()

    def worker(self, tid, spec):
        self.tids[threading.get_ident()] = tid
        self.sems[tid].acquire()
        try:
            self.res[tid] = call_by_spec(spec)
        except BaseException as e:      # noqa
            self.res[tid] = ["EXC", type(e).__name__]
        self.at[tid] = ["end", ""]
        self.ctl.release()

    def advance(self, tid):
        self.sems[tid].release()
        if not self.ctl.acquire(timeout=20):
            raise RuntimeError("thread %d did not reach a hook" % tid)
        return self.at[tid]


def replay_model_schedule(calls, vec):
    """Child-side: drive real decoder calls along one TLC behaviour. Returns [problems, results]."""
    sf = de.selfies_mod()
    import selfies.grammar_rules as gr
    n = len(calls)
    hs = HookSched(n)
    if not getattr(gr, "_verif_install", lambda l: False)(hs.listener):
        return ["NOHOOK"]
    specs = [["dec", "".join(c)] for c in calls]
    ths = [threading.Thread(target=hs.worker, args=(i, specs[i]), daemon=True) for i in range(n)]
    for t in ths:
        t.start()
    problems = []
    pos = [0] * n          # symbols processed per thread
    for t in range(n):     # thread-local prologue up to the first probe
        ev = hs.advance(t)
        if ev[0] not in ("probe", "end"):
            problems.append("thread %d: first hook %r" % (t, ev))
    obs_i = [0] * n
    for step in vec["sched"]:
        t, act = step[0] - 1, step[1]
        ev = hs.advance(t)
        if act == "Probe":
            want = vec["obs"][t][obs_i[t]]
            obs_i[t] += 1
            if ev[0] != want:
                problems.append("thread %d probe of %s: code %s, model %s" % (t, calls[t][pos[t]], ev[0], want))
            if ev[0] == "miss" and want == "hit":
                break
        elif act == "Store":
            if ev[0] != "store":
                problems.append("thread %d: expected store, code reached %r" % (t, ev))
        elif act == "Make":
            pos[t] += 1
            want = "end" if pos[t] == len(calls[t]) else "probe"
            if ev[0] != want:
                problems.append("thread %d: after make expected %s, code reached %r" % (t, want, ev))
        if problems:
            break
    if problems:
        return [problems, hs.res]
    for t in ths:
        t.join(timeout=20)
    gr._VERIF_LISTENER = None
    return [problems, hs.res]


# --------------------------------------------------------------------------
# SCHED 2: line-level preemption of free code (every executed line of selfies is a preemption point)
# --------------------------------------------------------------------------

class LineSched:
    """Exactly one worker runs at a time; a worker can be parked at any 'line' event inside selfies/."""

    def __init__(self, n, plan):
        self.sems = [threading.Semaphore(0) for _ in range(n)]
        self.ctl = threading.Semaphore(0)
        self.done = [False] * n
        self.steps = [0] * n
        self.plan = plan                  # list of (thread, line count at which it is preempted)
        self.park = [False] * n
        self.res = [None] * n

    def tracer(self, tid):
        def local(frame, event, arg):
            if event == "line":
                self.steps[tid] += 1
                if self.park[tid] and self.steps[tid] >= self.park[tid]:
                    self.park[tid] = False
                    self.ctl.release()
                    self.sems[tid].acquire()
            return local

        def glob(frame, event, arg):
            if os.sep + "selfies" + os.sep in frame.f_code.co_filename:
                return local
            return None
        return glob

    def worker(self, tid, spec):
        self.sems[tid].acquire()
        sys.settrace(self.tracer(tid))
        try:
            self.res[tid] = call_by_spec(spec)
        except BaseException as e:      # noqa
            self.res[tid] = ["EXC", type(e).__name__]
        finally:
            sys.settrace(None)
            self.done[tid] = True
            self.ctl.release()

    def run(self, specs):
        n = len(specs)
        ths = [threading.Thread(target=self.worker, args=(i, specs[i]), daemon=True) for i in range(n)]
        for t in ths:
            t.start()
        order = list(self.plan)
        # plan: run thread a until its line p, then thread b completely, ... then finish everyone
        for (tid, p) in order:
            if self.done[tid]:
                continue
            self.park[tid] = p
            self.sems[tid].release()
            if not self.ctl.acquire(timeout=30):
                raise RuntimeError("scheduler stuck")
        for tid in range(n):
            while not self.done[tid]:
                self.park[tid] = False
                self.sems[tid].release()
                if not self.ctl.acquire(timeout=30):
                    raise RuntimeError("scheduler stuck")
        for t in ths:
            t.join(timeout=10)
        return self.res, self.steps


FOLLOWUPS = [["enc", "C1" + "C" * k + "C1"] for k in (15, 16, 17, 21, 33, 41, 42, 47, 60, 300)] + \
            [["enc", "C(" + "C" * k + ")C"] for k in (16, 17, 40, 45)] + \
            [["dec", "[C][C][#Branch3][C][C][C][C][\\\\Ring3][C][C][C][=Branch2][C][C][-/Ring2][C][C]"],
             ["dec", "[Si][Ge][Sn][=Ring1][Branch1][#Branch1][Ring3][Ring2][C][C]"], ["enc", "c1ccc2ccccc2c1[Se][Sn]"]]


def line_run(specs, plan):
    """The concurrent calls under the given preemption plan, then follow-up calls run serially in the
    same interpreter: state damaged by the race shows up there."""
    de.selfies_mod()
    ls = LineSched(len(specs), plan)
    res, steps = ls.run(specs)
    follow = [call_by_spec(s) for s in FOLLOWUPS]
    return [res + follow, steps]


def serial_results(specs, followups=True):
    """Each call alone in its own fresh child."""
    return [in_child(lambda s=s: call_by_spec(s)) for s in list(specs) + (FOLLOWUPS if followups else [])]


def _line_job(args):
    specs, plan = args
    return in_child(lambda: line_run(specs, plan), timeout=120)


def _line_chunk(chunk):
    return [_line_job(j) for j in chunk]


def _model_chunk(chunk):
    return [_model_job(j) for j in chunk]


def _stress_chunk(chunk):
    return [in_child(lambda: stress(specs, 30, 6), timeout=300) for specs in chunk]


def explore_lines(rep, specs, quick, rng, what, max_single=None, n_double=None):
    """All single-preemption schedules of thread 0 (thread 1 runs completely in the gap), and the
    symmetric ones; sampled double preemptions."""
    ser = serial_results(specs)
    base = in_child(lambda: line_run(specs, []))
    if base[0] in ("CHILD-FAIL", "CHILD-EXC"):
        raise MachineryError("line scheduler failed: %r" % (base,))
    steps = base[1]
    plans = []
    for a, b in ((0, 1), (1, 0)):
        pts = list(range(1, steps[a] + 1))
        cap = max_single or (1500 if quick else 20000)
        if len(pts) > cap:
            pts = sorted(rng.sample(pts, cap))
        for p in pts:
            plans.append([(a, p), (b, 10 ** 9)])
    for _ in range(n_double or (40 if quick else 600)):
        p = rng.randint(1, steps[0])
        q = rng.randint(1, steps[1])
        plans.append([(0, p), (1, q), (0, 10 ** 9)])
    results = []
    jobs = [(specs, pl) for pl in plans]
    for part in de.pmap(_line_chunk, de.chunked(jobs, NCPU)):
        results.extend(part)
    rep.traces += len(results)
    bad = 0
    for pl, r in zip(plans, results):
        if r[0] in ("CHILD-FAIL", "CHILD-EXC"):
            rep.violation("%s: schedule %r crashed the interpreter or timed out: %r" % (what, pl, r), {"specs": specs, "plan": pl})
            bad += 1
            continue
        if r[0] != ser:
            bad += 1
            if bad <= 3:
                rep.violation("%s: with thread switch(es) at %r the calls returned %r, alone they return %r" % (
                    what, pl, r[0], ser), {"specs": specs, "plan": pl, "concurrent": r[0], "serial": ser})
    rep.configs.append({"config": "line-level preemption: " + what, "calls": specs, "lines_executed": steps,
                        "schedules": len(plans), "deviating": bad})
    return bad


def _model_job(args):
    calls, vec = args
    return in_child(lambda: replay_model_schedule(calls, vec), timeout=60)


def stress(specs, rounds, nthreads):
    """Free-running threads with a tiny switch interval (sampling)."""
    de.selfies_mod()
    sys.setswitchinterval(1e-6)
    out = []
    barrier = threading.Barrier(nthreads)

    def work(i):
        barrier.wait()
        acc = []
        for r in range(rounds):
            s = specs[(i + r) % len(specs)]
            acc.append([s, call_by_spec(s)])
        out.append(acc)
    ths = [threading.Thread(target=work, args=(i,)) for i in range(nthreads)]
    for t in ths:
        t.start()
    for t in ths:
        t.join()
    return out


def check_C19(tier):
    rep = Report("C19", tier)
    quick = tier == "quick"
    rep.notes["rule"] = ("TLC explores every interleaving of the shared-cache micro-actions (Probe / Store / Make) of 2-3 "
                         "threads with NoSharing, ResultSerial, CacheMonotone and termination under fairness; a negative "
                         "configuration (cache stores an atom instance) must violate NoSharing; every behaviour of the "
                         "2-thread model is forced onto real threads parked at the guarded cache hooks (observed hits and "
                         "misses must equal the model's, results must equal the serial results); independently every "
                         "executed line of selfies is used as a preemption point in freshly forked interpreters; "
                         "non-trivial = schedule with at least one thread switch")
    rng = random.Random(seed() * 19 + 3)
    # --- MC ---
    calls2 = [["[Si]", "[Ge]", "[Si]"], ["[Ge]", "[Si]", "[C]"]]
    calls3 = [["[Si]", "[Ge]"], ["[Ge]", "[Si]"], ["[Si]", "[C]"]]
    inv = ["NoSharing", "ResultSerial", "OnlyRecipes"]
    for nm, calls in (("2 threads x 3 symbols", calls2), ("3 threads x 2 symbols", calls3)):
        r, _ = run_threads_tlc("mc", calls, ["[C]"], invariants=inv, properties=["CacheMonotone"])
        rep.add_tlc(r, "Threads " + nm)
        if r.violated:
            rep.violation("specification-level: %s" % r.violated, {"errors": r.errors[:2]})
    r, _ = run_threads_tlc("live", [c[:2] for c in calls2], ["[C]"], spec="ThFair", properties=["EveryCallFinishes"])
    rep.add_tlc(r, "Threads liveness")
    if r.violated:
        rep.violation("specification-level liveness: %s" % r.violated, {"errors": r.errors[:2]})
    rn, _ = run_threads_tlc("neg", calls2, ["[C]"], store_instance=True, invariants=["NoSharing"])
    rep.add_tlc(rn, "negative control: atom instance cached")
    if "NoSharing" not in rn.violated:
        raise MachineryError("negative control did not violate NoSharing: the model cannot see the bug class")
    rep.notes["negative_controls"] = ["StoreInstance -> NoSharing violated"]
    # --- GEN -> SCHED ---
    calls = [["[Si]", "[Ge]"], ["[Ge]", "[Si]", "[Sn]"]] if quick else calls2
    r, vecs = run_threads_tlc("gen", calls, ["[C]"], emit=True)
    rep.add_tlc(r, "Threads behaviours (2 threads)")
    if quick and len(vecs) > 400:
        vecs = rng.sample(vecs, 400)
    de.selfies_mod()
    ser = serial_results([["dec", "".join(c)] for c in calls], followups=False)
    jobs = [(calls, v) for v in vecs]
    results = []
    for part in de.pmap(_model_chunk, de.chunked(jobs, NCPU)):
        results.extend(part)
    nohook = sum(1 for x in results if x and x[0] == "NOHOOK")
    if nohook:
        rep.notes["model_schedule_replay"] = "hooks not available in this tree: skipped (line-level exploration still runs)"
    else:
        rep.traces += len(results)
        for v, x in zip(vecs, results):
            switches = sum(1 for a, b in zip(v["sched"], v["sched"][1:]) if a[0] != b[0])
            rep.case(json.dumps(v["sched"]), nontrivial=switches >= 1)
            if x[0] in ("CHILD-FAIL", "CHILD-EXC"):
                rep.violation("model schedule %r: %r" % (v["sched"], x), {"schedule": v["sched"]})
            elif x[0]:
                # the code's cache protocol is not the modelled one (hits / misses / stores in other places): the
                # design-level results of module Threads no longer transfer to the code.  Reported, not an alarm: a
                # maintainer may replace the memoisation scheme by another correct one; results are still compared by
                # the line-level exploration and the stress runs below.
                drift = rep.notes.setdefault("thread_model_drift", {"schedules": 0, "samples": []})
                drift["schedules"] += 1
                if len(drift["samples"]) < 3:
                    drift["samples"].append({"schedule": v["sched"], "problems": x[0][:2]})
            elif x[1] != ser:
                rep.violation("model schedule %r: concurrent results %r, serial %r" % (v["sched"], x[1], ser),
                              {"schedule": v["sched"]})
        for v in vecs[:2]:
            rep.sample({"calls": calls, "schedule": v["sched"], "cache_observations": v["obs"]})
    # --- line-level preemption in fresh interpreters ---
    ring = "C1" + "C" * 20 + "C1"
    ring2 = "C1" + "C" * 40 + "C1N"
    pairs = [
        ("decoder || decoder (first use of the branch / ring symbol tables)",
         [["dec", "[C][Branch1][C][C][Ring1][C]"],
          ["dec", "[C][C][#Branch3][C][C][C][C][\\\\Ring3][C][C][C][=Branch2][C][C][-/Ring2][C][C]"]]),
        ("decoder || decoder (symbols new to the process)",
         [["dec", "[Si][=Ge][C][Branch1][C][F][Ring1][Ring1]"], ["dec", "[Ge][Si][N+1][C][Ring1][Ring2]"]]),
        ("encoder || encoder (ring spans needing two index symbols)", [["enc", ring], ["enc", ring2]]),
        ("encoder || decoder", [["enc", "c1ccccc1[C@H](N)[Se]"], ["decattr", "[Se][C@H1][=Branch1][C][=O][Ring1][Ring1]"]]),
        # the same fused odd-ring aromatic system kekulised by both threads for the first time in the process
        ("encoder || encoder (same odd-ring aromatic system, matching needs augmentation)",
         [["enc", "c2cc3c4cccc5cccc(c3cc2)c54"], ["enc", "c2cc3c4cccc5cccc(c3cc2)c54"]]),
        # the same input in both threads (shared memo of a result, if any, is filled and read concurrently)
        ("decoder || decoder (same input)", [["decattr", "[Ge][=Si][C@@H1][Branch1][C][Cl][Ring1][Ring2].[13CH3][N+1]"],
                                             ["decattr", "[Ge][=Si][C@@H1][Branch1][C][Cl][Ring1][Ring2].[13CH3][N+1]"]]),
        ("encoder || encoder (same input, rings, branches, stereo)", [["enc", "F/C=C/[C@@]12CC(C1)C[Se]2(=O)C.[Na+]"],
                                                                     ["enclax", "F/C=C/[C@@]12CC(C1)C[Se]2(=O)C.[Na+]"]]),
        # one call re-reads a symbol it has just cached while the other floods the symbol cache with new symbols
        ("decoder || decoder (second thread floods the symbol cache with 1100 new symbols)",
         [["dec", "[C][13CH1][O][13CH1][N][13CH1]"], ["dec", "".join("[%dC]" % k for k in range(14, 1114))]]),
    ]
    if not quick:
        pairs += [("decoder(branch / ring symbols first use) || same", [["dec", "[C][Branch2][C][Ring1][C][=Branch1][C][#Ring1][C]"], ["dec", "[N][=Ring2][C][\\/Ring1][C][Branch3][C]"]]),
                  ("encoder(aromatic) || encoder(aromatic)", [["enc", "c1ccc2ccccc2c1"], ["enclax", "n1ccccc1-c1ccco1"]])]
    for what, specs in pairs:
        explore_lines(rep, specs, quick, rng, what)
        rep.case(what, nontrivial=True)
    # two calls that are both close to an interpreter-wide resource limit (nesting beyond the recursion limit:
    # alone each raises RecursionError, see known_findings.json; together they must do exactly the same)
    # a molecule with more than 99 ring closures (ring numbers are reused) beside another ring-writing call
    many = "".join(gens.rings_beyond_99(random.Random(seed() + 99), tail=40))
    small = "[C][C][C][Ring1][Ring1][C][C][C][Ring1][Ring1][C][=C][C][C][Ring1][Branch1]"
    explore_lines(rep, [["dec", many], ["dec", small]],
                  quick, rng, "decoder (more than 99 rings) || decoder (rings)", max_single=(25 if quick else 400),
                  n_double=(25 if quick else 400))
    explore_lines(rep, [["dec", "".join(gens.wrapped_rings(130))], ["dec", small]],
                  quick, rng, "decoder (macrocycle through 130 small rings: a ring number stays open) || decoder (rings)",
                  max_single=(40 if quick else 400), n_double=(30 if quick else 400))
    deep = "".join(gens.deep_branches(1200))
    explore_lines(rep, [["dec", deep], ["dec", deep + "[O]"]], quick, rng, "decoder || decoder (both nested 1200 deep)",
                  max_single=(30 if quick else 300), n_double=(60 if quick else 600))
    # --- free-running stress (sampling) ---
    specs = [p[1][0] for p in pairs] + [p[1][1] for p in pairs]
    ser = {json.dumps(s): in_child(lambda s=s: call_by_spec(s)) for s in specs}
    nruns = 6 if quick else 40
    outs = de.pmap(_stress_chunk, de.chunked([specs] * nruns, NCPU))
    for part in outs:
        for run in part:
            if run and run[0] in ("CHILD-FAIL", "CHILD-EXC"):
                rep.violation("free-running stress crashed: %r" % (run,), {})
                continue
            for acc in run:
                for s, r_ in acc:
                    rep.traces += 1
                    if r_ != ser[json.dumps(s)]:
                        rep.violation("free-running threads: %r returned %r, alone %r" % (s, r_, ser[json.dumps(s)]), {"call": s})
    rep.exhaustive = True
    rep.assumptions += ["inside the regions the model treats as atomic the code is explored by line-granularity "
                        "single preemptions (all) and double preemptions (sampled) and by free-running stress: bytecode-level "
                        "interleavings are sampled, not enumerated",
                        "each schedule starts from a freshly forked interpreter that has imported selfies but made no call"]
    return rep.finish()
