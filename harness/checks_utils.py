"""C15: label / one-hot encodings (EncodingUtils.tla)."""
import os
import random

from common import MachineryError, seed, scratch, run_tlc, tlc_ok, tla_set, NCPU
from report import Report
import dec_engine as de


def run_utils_tlc(symbols, extra, maxstr, pads, enctypes, emit=True, timeout=1800):
    work = scratch("utils_")
    with open(os.path.join(work, "UtilParams.tla"), "w") as f:
        f.write("---- MODULE UtilParams ----\nEXTENDS Integers\nSymbols == %s\nExtra == %s\nMaxStr == %d\nPads == {%s}\nEncTypes == %s\n====\n"
                % (tla_set(symbols), tla_set(extra), maxstr, ", ".join(str(p) for p in pads), tla_set(enctypes)))
    with open(os.path.join(work, "MC_utils.tla"), "w") as f:
        f.write("---- MODULE MC_utils ----\nEXTENDS EncodingUtils\n====\n")
    cfg = "SPECIFICATION USpec\n" + "".join("INVARIANT %s\n" % i for i in
                                            ["LabelShape", "OneHotExactlyOne", "InverseHolds", "RaisesNotWrong"])
    if emit:
        cfg += "INVARIANT UEmit\n"
    cfg += "CHECK_DEADLOCK FALSE\n"
    r = run_tlc(work, "MC_utils", cfg, workers=NCPU, timeout=timeout, heap="6g", stdout_path=os.path.join(work, "out.txt"))
    tlc_ok(r, "utils")
    vec = r.printed
    r.printed = []
    return r, vec


def call(fn, *a, **kw):
    try:
        return ("ok", fn(*a, **kw))
    except KeyError:
        return ("KeyError", None)
    except ValueError:
        return ("ValueError", None)
    except Exception as e:
        return (type(e).__name__, None)


def check_C15(tier):
    rep = Report("C15", tier)
    quick = tier == "quick"
    rep.notes["rule"] = ("TLC enumerates every vocabulary bijection over subsets of a symbol pool (with / without '.', "
                         "with / without [nop]), every string up to the bound (incl. an out-of-vocabulary symbol), pad "
                         "lengths -2..5 and every enc_type incl. a bogus one, with LabelShape / OneHotExactlyOne / "
                         "InverseHolds / RaisesNotWrong as invariants; every vector is replayed into the four library "
                         "functions incl. malformed decoder inputs; non-trivial = non-empty string")
    sf = de.selfies_mod()
    symbols = ["[C]", "[O]", "[nop]", "."] if not quick else ["[C]", "[nop]", ".", "[O]"]
    r, vectors = run_utils_tlc(symbols, ["[F]"], 3 if quick else 4, [-2, -1, 0, 1, 2, 3, 5] if not quick else [-2, 0, 1, 3, 5],
                               ["label", "one_hot", "both", "bogus"])
    rep.add_tlc(r, "EncodingUtils enumeration")
    if r.violated:
        rep.violation("specification-level: %s" % r.violated, {"errors": r.errors[:2]})
    rng = random.Random(seed() + 15)
    for v in vectors:
        stoi = v["stoi"] if isinstance(v["stoi"], dict) else {}
        itos = {i: s for s, i in stoi.items()}
        toks = list(v["toks"])
        s = "".join(toks)
        rep.case((tuple(sorted(stoi.items())), s, v["pad"], v["enc"]), nontrivial=len(toks) > 0)
        kind, out = call(sf.selfies_to_encoding, s, dict(stoi), pad_to_len=v["pad"], enc_type=v["enc"])
        rep.traces += 1
        want_label, want_hot = list(v["label"]), [list(r_) for r_ in v["onehot"]]
        if kind != v["kind"]:
            rep.violation("selfies_to_encoding(%r, %r, pad_to_len=%d, enc_type=%r): %s, specification %s" % (
                s, stoi, v["pad"], v["enc"], kind, v["kind"]), {"vector": v})
            continue
        if kind != "ok":
            continue
        got_label = out if v["enc"] == "label" else out[0] if v["enc"] == "both" else None
        got_hot = out if v["enc"] == "one_hot" else out[1] if v["enc"] == "both" else None
        if (got_label is not None and list(got_label) != want_label) or \
                (got_hot is not None and [list(r_) for r_ in got_hot] != want_hot):
            rep.violation("selfies_to_encoding(%r, %r, pad_to_len=%d, enc_type=%r) = %r, specification label %r one-hot %r" % (
                s, stoi, v["pad"], v["enc"], out, want_label, want_hot), {"vector": v})
            continue
        padded = s + "[nop]" * max(0, v["pad"] - len(toks))
        if got_label is not None:
            k2, back = call(sf.encoding_to_selfies, list(got_label), dict(itos), enc_type="label")
            if (k2, back) != ("ok", padded):
                rep.violation("encoding_to_selfies(label) does not invert: %r -> %r" % (padded, back), {"vector": v})
        if got_hot is not None:
            k2, back = call(sf.encoding_to_selfies, [list(r_) for r_ in got_hot], dict(itos), enc_type="one_hot")
            if (k2, back) != ("ok", padded):
                rep.violation("encoding_to_selfies(one_hot) does not invert: %r -> %r" % (padded, back), {"vector": v})
            flat = [x for r_ in got_hot for x in r_]
            k3, b3 = call(sf.batch_flat_hot_to_selfies, [flat], dict(itos))
            if (k3, b3) != ("ok", [padded]):
                rep.violation("batch_flat_hot_to_selfies does not invert: %r -> %r" % (padded, b3), {"vector": v})
            # malformed decoder inputs raise instead of returning wrong data
            if got_hot and len(stoi) > 0:
                broken = [list(r_) for r_ in got_hot]
                broken[rng.randrange(len(broken))] = [0] * len(stoi)
                if call(sf.encoding_to_selfies, broken, dict(itos), enc_type="one_hot")[0] != "ValueError":
                    rep.violation("one-hot row without a 1 is accepted", {"vector": v})
                if len(stoi) > 1 and call(sf.batch_flat_hot_to_selfies, [flat + [0]], dict(itos))[0] != "ValueError":
                    rep.violation("ragged flat vector is accepted", {"vector": v})
            if call(sf.encoding_to_selfies, got_hot, dict(itos), enc_type="both")[0] != "ValueError":
                rep.violation("encoding_to_selfies accepts enc_type='both'", {"vector": v})
    for v in vectors[:: max(1, len(vectors) // 3)][:3]:
        rep.sample({k: v[k] for k in ("stoi", "toks", "pad", "enc", "kind", "label")})
    # batches: element-wise, mixed lengths, every pad; inverse of each other
    pool = sorted(set("".join(v["toks"]) for v in vectors if v["kind"] == "ok" and v["enc"] == "one_hot"))
    vocab = {"[C]": 2, "[O]": 0, "[nop]": 1, ".": 3}
    itos = {i: s for s, i in vocab.items()}
    for _ in range(400 if quick else 4000):
        batch = [rng.choice(pool) for _ in range(rng.randint(0, 5))]
        batch = [b for b in batch if "[F]" not in b]
        padlen = rng.choice([-3, -1, 0, 1, 2, 4, 6])
        k, flat = call(sf.batch_selfies_to_flat_hot, batch, dict(vocab), padlen)
        rep.traces += 1
        each = []
        for b in batch:
            k1, h = call(sf.selfies_to_encoding, b, dict(vocab), pad_to_len=padlen, enc_type="one_hot")
            each.append([x for r_ in h for x in r_] if k1 == "ok" else None)
        if k != "ok" or flat != each:
            rep.violation("batch_selfies_to_flat_hot(%r, pad=%d) is not the element-wise encoding" % (batch, padlen), {"batch": batch})
            continue
        k2, back = call(sf.batch_flat_hot_to_selfies, flat, dict(itos))
        want = [b + "[nop]" * max(0, padlen - sf.len_selfies(b)) for b in batch]
        if (k2, back) != ("ok", want):
            rep.violation("batch_flat_hot_to_selfies(batch_selfies_to_flat_hot(%r, pad=%d)) = %r" % (batch, padlen, back), {"batch": batch})
        # a ragged vector at ANY position of the batch must raise (never a silently truncated string)
        if flat and len(vocab) > 1:
            pos = rng.randrange(len(flat))
            for extra in ([0], [1], [0] * (len(vocab) - 1)):
                bad_flat = [list(x) for x in flat]
                bad_flat[pos] = bad_flat[pos] + extra
                kr, br = call(sf.batch_flat_hot_to_selfies, bad_flat, dict(itos))
                rep.traces += 1
                if kr != "ValueError":
                    rep.violation("batch_flat_hot_to_selfies accepts a ragged vector at position %d of %d: %s %r" % (
                        pos, len(flat), kr, br), {"batch": batch, "position": pos, "extra": extra})
                    break
        # the library must not hand out shared rows: mutate what was returned, encode again
        if flat and flat[0]:
            for row in flat:
                for i in range(len(row)):
                    row[i] = 7
            k3, again = call(sf.batch_selfies_to_flat_hot, batch, dict(vocab), padlen)
            if again != each:
                rep.violation("mutating a returned encoding changes later results for %r" % (batch,), {"batch": batch})
    # results are private copies: mutating a returned encoding must not change later results
    vocab2 = {"[C]": 0, "[O]": 1, "[nop]": 2, ".": 3}
    for s_, padlen in (("[C][O]", 4), ("", 2), ("[C].[O]", 0), ("[O][O][C]", 5)):
        k1, first = call(sf.selfies_to_encoding, s_, dict(vocab2), pad_to_len=padlen, enc_type="both")
        ref = ([list(first[0]), [list(r_) for r_ in first[1]]]) if k1 == "ok" else None
        if k1 == "ok":
            for r_ in first[1]:
                for i in range(len(r_)):
                    r_[i] = 0
            for i in range(len(first[0])):
                first[0][i] = 9
        k2, second = call(sf.selfies_to_encoding, s_, dict(vocab2), pad_to_len=padlen, enc_type="both")
        rep.traces += 1
        if k1 != "ok" or k2 != "ok" or [list(second[0]), [list(r_) for r_ in second[1]]] != ref:
            rep.violation("mutating the encoding returned for %r (pad %d) changes what the next call returns: %r" % (
                s_, padlen, second), {"input": s_, "pad": padlen})
        # rows of one result must not be one shared object either
        if k2 == "ok" and len(second[1]) >= 2:
            second[1][0][0] = 5
            if any(r_[0] == 5 for r_ in second[1][1:]):
                rep.violation("rows of a one-hot matrix share storage", {"input": s_})
    # larger vocabularies
    import gens
    for _ in range(100 if quick else 1000):
        toks = [t for t in gens.alive_selfies(rng, rng.randint(0, 30))]
        syms = sorted(set(toks) | {"[nop]", "."})
        rng.shuffle(syms)
        stoi = {s_: i for i, s_ in enumerate(syms)}
        itos = {i: s_ for s_, i in stoi.items()}
        s = "".join(toks)
        padlen = rng.randint(-2, len(toks) + 5)
        k, out = call(sf.selfies_to_encoding, s, stoi, pad_to_len=padlen, enc_type="both")
        rep.traces += 1
        want = [stoi[t] for t in toks] + [stoi["[nop]"]] * max(0, padlen - len(toks))
        if k != "ok" or list(out[0]) != want or any(sum(r_) != 1 or r_[want[i]] != 1 or len(r_) != len(stoi) for i, r_ in enumerate(out[1])):
            rep.violation("selfies_to_encoding wrong on %r pad %d" % (s[:100], padlen), {"tokens": toks})
        elif call(sf.encoding_to_selfies, out[1], itos, "one_hot") != ("ok", s + "[nop]" * max(0, padlen - len(toks))):
            rep.violation("encoding_to_selfies(one_hot) does not invert on %r" % s[:100], {"tokens": toks})
    rep.exhaustive = True
    return rep.finish()
