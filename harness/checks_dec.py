"""Decoder-side checks: C01, C02 (more in this file as they are built)."""
import os
import random

from common import MachineryError, seed
from report import Report
from alphabets import DEC, TABLES, LEGACY, LEGACY2, IDX, DEC_POOL
import dec_engine as de
import gens

ALL_ACTIONS = ["Nop", "ReadAtom", "ReadBranch", "ReadRing", "ReadEps", "ReadInvalid", "ReadIndex",
               "PhantomIndex", "IndexDone", "SkipTok", "Pop", "FormRing", "RingsDone", "WNextRoot", "WStep",
               "wait", "done", "error"]


def tabname(t):
    return t if isinstance(t, str) else "custom"


def judge_mismatches(rep, name, mism, table, compat, classify):
    """String-level mismatches of REPLAY are not violations yet: TLC reads the implementation's
    output with the specification's SMILES reader and compares molecules (TraceDec)."""
    if not mism:
        return
    recs = [{"inp": v["inp"], "kind": k, "out": o} for v, (k, o) in mism[:3000]]
    _, events = de.validate_decoder_trace(name + "_judge", recs, table, compat)
    bad = {}
    for e in events:
        if e.get("ev") in ("MISMATCH", "CLAUSE"):
            bad.setdefault(e["tid"], e)
    for tid, e in sorted(bad.items()):
        rec = recs[tid]
        classify(rep, rec, e, table, compat)
    if len(mism) > 3000:
        rep.notes["judge_truncated"] = len(mism)


def default_classify(rep, rec, e, table, compat):
    if "inp" not in rec:
        rec = dict(rec, inp=[rec["raw"]])
    rep.violation("decoder(%r) [table=%s compat=%s] -> %s %r; specification: %s %r; clause: %s" % (
        "".join(rec["inp"]), tabname(table), compat, rec["kind"], rec["out"], e.get("spec_kind"),
        e.get("spec_out"), e.get("clause", e.get("clauses"))),
        {"input": "".join(rec["inp"]), "tokens": rec["inp"], "table": table, "compatible": compat,
         "impl": [rec["kind"], rec["out"]], "spec": [e.get("spec_kind"), e.get("spec_out")],
         "clause": e.get("clause", e.get("clauses"))})


def gen_replay(rep, name, alphabet, table, maxlen, compat=False, fastjit=True, classify=default_classify,
               sample_filter=None, deep=False):
    """GEN -> REPLAY for one configuration."""
    results, vectors = de.run_decoder_tlc(name, alphabet, table, maxlen, compat=compat, emit=True, fastjit=fastjit, deep=deep)
    for r in results:
        if r.violated:
            raise MachineryError("unexpected invariant violation in generation config %s: %s" % (name, r.errors[:1]))
    tot = de.TlcResult() if hasattr(de, "TlcResult") else None
    agg = results[0]
    st = sum(r.distinct for r in results)
    gen = sum(r.generated for r in results)
    rep.states += st
    rep.transitions += gen
    rep.configs.append({"config": name, "alphabet": alphabet, "table": tabname(table), "max_symbols": maxlen,
                        "compatible": compat, "distinct_states": st, "vectors": len(vectors),
                        "wall_s": round(max(r.wall for r in results), 1), "exhaustive": all(r.completed for r in results)})
    # determinism of the specification in the precise region: one terminal outcome per input
    seen = {}
    for v in vectors:
        key = tuple(v["inp"])
        if key in seen and seen[key] != (v["kind"], v["out"]):
            raise MachineryError("specification nondeterministic on %r" % (key,))
        seen[key] = (v["kind"], v["out"])
    mism = de.replay_decoder_vectors(vectors, table, compat)
    rep.traces += len(vectors)
    for v in vectors:
        rep.case((name, tuple(v["inp"])), nontrivial=len(v["inp"]) >= 2)
    for v in vectors[:: max(1, len(vectors) // 2)][:2]:
        rep.sample({"config": name, "input": "".join(v["inp"]), "expect": [v["kind"], v["out"]]})
    judge_mismatches(rep, name, mism, table, compat, classify)
    return vectors


def coverage_run(rep, alphabet, table, maxlen, need=ALL_ACTIONS):
    """Named-action specification with -coverage 1: the vacuity guard."""
    results, _ = de.run_decoder_tlc("cov", alphabet, table, maxlen, spec="Spec", coverage=True,
                                    invariants=de.C01_INVARIANTS + ["InvWriteParseId"])
    r = results[0]
    if r.violated:
        rep.violation("specification-level invariant violated: %s" % r.violated, {"errors": r.errors[:2]})
    rep.add_tlc(r, "coverage(named actions, <=%d symbols)" % maxlen)
    rep.require_coverage(need)


# --------------------------------------------------------------------------
# C02 - the decoder implements the derivation grammar exactly
# --------------------------------------------------------------------------

def check_C02(tier):
    rep = Report("C02", tier)
    rep.notes["rule"] = ("TLC enumerates every symbol string up to the length bound over each alphabet "
                         "(generation mode of DecodeCall), emits (input, expected outcome) at every terminal "
                         "state; each vector is replayed into selfies.decoder under the same table; "
                         "non-trivial = at least 2 symbols; distinct = distinct (config, input)")
    quick = tier == "quick"
    n = 4 if quick else 5
    plan = [("branch", "default", n), ("ring", "default", n), ("frag", "default", n), ("caps", "default", n),
            ("bad", "default", n), ("index", "default", 3), ("caps", "tight", n), ("ring", "wide", n),
            ("branch", "octet_rule", 3 if quick else n), ("caps", "hypervalent", 3 if quick else n)]
    for alpha, tab, ml in plan:
        gen_replay(rep, "%s_%s" % (alpha, tabname(tab)), DEC[alpha], TABLES[tab], ml, fastjit=quick)
    if not quick:
        for alpha in ("branch", "ring", "frag"):
            gen_replay(rep, "%s8_default6" % alpha, DEC[alpha][:8], "default", 6, fastjit=False)
    # one more alphabet drawn from a large symbol pool by VERIF_SEED: widens coverage from run to run
    rng = random.Random(seed() * 1009 + 2)
    for k in range(1 if quick else 4):
        alpha = sorted(rng.sample(DEC_POOL, 11)) + ["."]
        tab = rng.choice(["default", "octet_rule", "hypervalent", "tight", "wide"])
        gen_replay(rep, "pool%d_%s" % (k, tab), alpha, TABLES[tab], 4, fastjit=quick)
    narrow_deep(rep, quick, rng)
    testsuite_traces(rep, quick, "decoder")
    coverage_run(rep, DEC["frag"] + ["[epsilon]", "[Foo]"], "default", 3)
    trace_random(rep, "C02", quick)
    rep.exhaustive = True
    rep.assumptions += ["symbols are ASCII; the alphabets are listed in coverage.configs",
                        "look-alikes of [epsilon] (symbols containing 'eps') are in the permissive region: "
                        "treated as epsilon or rejected"]
    return rep.finish()


NARROW = [["[C]", "[Branch1]", "[Ring1]", "[=Ring1]"], ["[C]", "[=Branch1]", "[Ring1]", "[#C]"], ["[N]", "[Branch1]", "[=Ring1]", "[=C]"],
          ["[C]", "[Ring1]", "[Ring2]", "."], ["[S]", "[#Branch1]", "[Ring1]", "[=N]"], ["[C]", "[Branch2]", "[Ring1]", "[=Ring2]"],
          ["[P]", "[Branch1]", "[#Ring1]", "[C]"], ["[C]", "[Branch1]", "[-/Ring1]", "[\\/Ring1]"],
          ["[C]", "[#C]", "[Ring1]", "."], ["[S]", "[#C]", "[Ring1]", "[Branch1]"], ["[C]", "[=C]", "[=Ring1]", "."]]


def narrow_deep(rep, quick, rng, table="default"):
    """Few symbols, long strings: interplay of several rings and branches on the same atoms needs 8-10 symbols
    (a ring from inside a branch back to the branch root, then the root's own ring; rings on rings; budgets that
    run out inside an index).  Every string over a 4-symbol alphabet up to 9 symbols, exhaustively."""
    # quick: the first alphabet, one with fragments and multiple bonds, one with two-symbol indices and dots (indices cut
    # off by the end of a fragment), one more chosen by VERIF_SEED
    alphas = [NARROW[0], NARROW[8], NARROW[3], NARROW[1 + seed() % (len(NARROW) - 1)]] if quick else NARROW
    for i, alpha in enumerate(alphas):
        gen_replay(rep, "narrow%d_%s" % (i, tabname(table)), alpha, table, 9 if quick else 10, fastjit=quick, deep=True)
    if not quick:
        gen_replay(rep, "narrow5_default", ["[C]", "[Branch1]", "[Ring1]", "[=Ring1]", "[Ring2]"], table, 9, fastjit=False, deep=True)


def testsuite_traces(rep, quick, which, own=None):
    """RECORD -> TRACE with the repository's own fast tests as the driver: every decoder / encoder call they make
    is recorded (input, flags, table in force, outcome) and validated by TLC - not the tests' assertions."""
    import json as _json
    import testsuite_trace as tt
    from common import REPO, scratch
    rc, recs, log_ = tt.record(REPO, 1500 if quick else 10000, scratch("tests_"))
    if rc is None:
        raise MachineryError("the repository's tests could not be run for recording: %s" % log_)
    rep.notes["repository_tests_as_driver"] = {"pytest_exit": rc, "calls_recorded": len(recs)}
    groups = {}
    for r in recs:
        if not isinstance(r.get("x"), str) or not all(ord(c) < 127 and c != '"' for c in r["x"]):
            continue
        if r["fn"] == "decoder" and which == "decoder":
            rec = {"kind": r["kind"], "out": r["out"] if isinstance(r["out"], str) else ""}
            if len(r["x"]) <= 800:
                rec["raw"] = r["x"]             # scanned by the specification's lexer
            else:
                try:                            # long strings: tokenised here (brackets and dots), judged as tokens
                    rec["inp"] = de.split_tokens(r["x"])
                except ValueError:
                    continue
            groups.setdefault((_json.dumps(r["table"], sort_keys=True), r["compatible"]), []).append(rec)
        elif r["fn"] == "encoder" and which == "encoder":
            groups.setdefault((_json.dumps(r["table"], sort_keys=True), False), []).append(
                {"smi": r["x"], "strict": r["strict"], "kind": r["kind"], "why": "", "sel": r["out"] if r["kind"] == "ok" else "",
                 "dec": r.get("dec", ""), "reenc": r.get("reenc", "")})
    n = 0
    for gi, ((tj, compat), rs) in enumerate(sorted(groups.items(), key=lambda kv: -len(kv[1]))):
        table = _json.loads(tj)
        seen, uniq = set(), []
        for r_ in rs:
            k = _json.dumps(r_, sort_keys=True)
            if k not in seen:
                seen.add(k)
                uniq.append(r_)
        if quick and len(uniq) > 1200:
            uniq = random.Random(seed() + gi).sample(uniq, 1200)
        n += len(uniq)
        if which == "decoder":
            trace_validate(rep, "tests%d" % gi, uniq, table, compat)
        else:
            import checks_enc
            for strict in (True, False):
                part = [r_ for r_ in uniq if r_["strict"] == strict]
                if part:
                    results, events = de.validate_roundtrip_trace("tests%d_%s" % (gi, strict), part, table)
                    rep.states += sum(r_.distinct for r_ in results)
                    rep.traces += len(part)
                    for e in events:
                        if e.get("ev") == "MISMATCH" and (own is None or e["prop"] in own):
                            rec = part[e["tid"]]
                            rep.violation("%s: a call made by the repository's tests: encoder(%r, strict=%s) -> %s %r, decoder -> %r : %s" % (
                                e["prop"], rec["smi"], strict, rec["kind"], rec["sel"][:200], rec["dec"][:200], e["clause"]),
                                {"smiles": rec["smi"], "strict": strict, "table": table, "record": rec})
    rep.notes["repository_tests_as_driver"]["calls_validated"] = n


def trace_random(rep, pid, quick, tables=("default", "wide", "tight")):
    """RECORD -> TRACE: long stay-alive strings far beyond TLC's enumeration bounds."""
    rng = random.Random(seed() * 7919 + 17)
    for tab in tables:
        n_inputs = 150 if quick else 1200
        maxlen = 120 if quick else 400
        inputs = [gens.long_selfies(rng, rng.randint(5, maxlen)) for _ in range(n_inputs // 2)]
        inputs += [gens.alive_selfies(rng, rng.randint(5, maxlen)) for _ in range(n_inputs // 2)]
        # many fragments, rings reaching back across dots, [nop] everywhere
        inputs += [gens.alive_selfies(rng, rng.randint(5, 80), p_dot=0.08, p_nop=0.06, p_ring=0.25) for _ in range(n_inputs // 3)]
        if tab == "default":
            inputs += [gens.many_closed_rings(120), gens.alive_selfies(rng, 600 if quick else 2000)]
            inputs += [gens.rings_beyond_99(rng) for _ in range(4 if quick else 40)]
            inputs += gens.uniform_strings(rng, DEC["ring"] + DEC["branch"] + DEC["bad"], 200 if quick else 2000, 30)
        recs = de.record_decoder(inputs, TABLES[tab])
        results, events = de.validate_decoder_trace("%s_%s" % (pid, tab), recs, TABLES[tab])
        for r in results:
            rep.states += r.distinct
            rep.transitions += r.generated
        rep.traces += len(recs)
        rep.configs.append({"config": "trace_%s" % tab, "calls": len(recs),
                            "symbols": sum(len(r["inp"]) for r in recs),
                            "machine_steps": sum(r.generated for r in results)})
        for rec in recs[:1]:
            rep.sample({"config": "trace_%s" % tab, "input": "".join(rec["inp"])[:200], "impl": [rec["kind"], rec["out"][:120]]})
        for rec in recs:
            rep.case(("trace", tab, tuple(rec["inp"])), nontrivial=len(rec["inp"]) >= 2)
        bad = {}
        for e in events:
            if e.get("ev") in ("MISMATCH", "CLAUSE"):
                bad.setdefault(e["tid"], e)
        for tid, e in sorted(bad.items()):
            default_classify(rep, recs[tid], e, TABLES[tab], False)


# --------------------------------------------------------------------------
# C01 - every SELFIES string decodes to a well-formed, valence-valid SMILES
# --------------------------------------------------------------------------

def check_C01(tier):
    rep = Report("C01", tier)
    quick = tier == "quick"
    rep.notes["rule"] = ("MC: all symbol strings up to the bound (VIEW hides the consumed input), C01 clauses as "
                         "invariants in every state incl. write.parse=id at terminal states; GEN->REPLAY and "
                         "RECORD->TRACE bind the implementation's output to the specification's molecule; "
                         "non-trivial = at least 2 symbols")
    n = 5 if quick else 6
    invs = de.C01_INVARIANTS + ["InvWriteParseId", "InvEmptyOut"]
    for alpha, tab, nn in [("ring", "default", n), ("branch", "default", n - 1), ("frag", "default", n),
                           ("caps", "tight", n), ("ring", "wide", n - 1), ("caps", "default", n - 1)]:
        if not quick:
            nn = n
        results, _ = de.run_decoder_tlc("mc_%s_%s" % (alpha, tab), DEC[alpha], TABLES[tab], nn, invariants=invs,
                                        view=True, fastjit=quick)
        for r in results:
            if r.violated:
                rep.violation("specification-level: invariant %s violated (alphabet %s, table %s)" % (r.violated, alpha, tab),
                              {"errors": r.errors[:2]})
        rep.states += sum(r.distinct for r in results)
        rep.transitions += sum(r.generated for r in results)
        rep.configs.append({"config": "mc_%s_%s" % (alpha, tab), "max_symbols": nn, "view": True,
                            "distinct_states": sum(r.distinct for r in results),
                            "exhaustive": all(r.completed for r in results)})
    # scaled ring-label constant: label exhaustion explored exhaustively at model scale
    results, _ = de.run_decoder_tlc("mc_labels", ["[C]", "[=C]", "[Ring1]", "[Ring2]", "[Branch1]", "[N]"], "default",
                                    7 if quick else 8, maxlabel=2,
                                    invariants=["InvLabelsLegal", "InvLabelsPaired", "InvRingsClosed"], view=True, fastjit=quick)
    for r in results:
        if r.violated:
            rep.violation("specification-level: %s violated with MaxLabel=2" % r.violated, {"errors": r.errors[:2]})
    rep.states += sum(r.distinct for r in results)
    rep.transitions += sum(r.generated for r in results)
    rep.configs.append({"config": "mc_labels(MaxLabel=2)", "distinct_states": sum(r.distinct for r in results)})
    # binding
    m = 4 if quick else 5
    for alpha, tab in [("ring", "default"), ("frag", "default"), ("caps", "tight"), ("branch", "wide")]:
        gen_replay(rep, "%s_%s" % (alpha, tab), DEC[alpha], TABLES[tab], m, fastjit=quick, classify=classify_C01)
    from alphabets import CHARGES2
    gen_replay(rep, "charges2_lowq", CHARGES2, TABLES["lowq"], m, fastjit=quick, classify=classify_C01)
    coverage_run(rep, DEC["frag"] + ["[epsilon]", "[Foo]"], "default", 3)
    apalache_inductive(rep)
    trace_C01(rep, quick)
    table_sweep(rep, quick)
    sanitizer_clause(rep, quick)
    rep.exhaustive = True
    rep.assumptions += ["the clause about an independent sanitizer is judged by RDKit (MolFromSmiles with "
                        "sanitization), outside the specification",
                        "beyond the enumeration bounds the claim rests on validated traces (sampling)"]
    return rep.finish()


def classify_C01(rep, rec, e, table, compat):
    default_classify(rep, rec, e, table, compat)


def trace_C01(rep, quick):
    rng = random.Random(seed() * 104729 + 5)
    for tab in ("default", "wide", "tight", "hypervalent"):
        n_inputs = 120 if quick else 1000
        maxlen = 150 if quick else 500
        inputs = [gens.long_selfies(rng, rng.randint(5, maxlen), p_ring=0.2) for _ in range(n_inputs // 3)]
        inputs += [gens.alive_selfies(rng, rng.randint(5, maxlen), p_ring=0.25) for _ in range(2 * n_inputs // 3)]
        if tab in ("default", "wide"):
            inputs += [gens.many_closed_rings(130), gens.many_open_rings(60),
                       gens.alive_selfies(rng, 700 if quick else 2000, p_ring=0.2)]
            inputs += [gens.rings_beyond_99(rng) for _ in range(4 if quick else 40)]
        if tab == "wide":
            inputs += [gens.many_open_rings(105)]
        recs = de.record_decoder(inputs, TABLES[tab])
        results, events = de.validate_decoder_trace("C01_%s" % tab, recs, TABLES[tab])
        for r in results:
            rep.states += r.distinct
            rep.transitions += r.generated
        rep.traces += len(recs)
        rep.configs.append({"config": "trace_%s" % tab, "calls": len(recs),
                            "symbols": sum(len(r["inp"]) for r in recs),
                            "max_symbols": max(len(r["inp"]) for r in recs),
                            "machine_steps": sum(r.generated for r in results)})
        for rec in recs:
            rep.case(("trace", tab, tuple(rec["inp"])), nontrivial=len(rec["inp"]) >= 2)
        overflow = set(e["tid"] for e in events if e.get("ev") == "OVERFLOW")
        bad = {}
        for e in events:
            if e.get("ev") in ("MISMATCH", "CLAUSE"):
                bad.setdefault(e["tid"], e)
        for tid, e in sorted(bad.items()):
            if tid in overflow and e.get("ev") == "CLAUSE" and set(e.get("clauses", [])) <= {"LabelsLegal"}:
                continue
            classify_C01(rep, recs[tid], e, TABLES[tab], False)
        for tid in sorted(overflow):
            # more rings simultaneously open than there are legal labels: no legal SMILES exists
            hit = [f for f in rep.findings if f.get("signature") == "decoder:more-than-99-simultaneously-open-rings"]
            if hit:
                rep.known(hit[0]["id"], hit[0]["what"])
            else:
                rep.violation("decoder output needs a ring label above 99 (%d symbols)" % len(recs[tid]["inp"]),
                              {"tokens": recs[tid]["inp"], "table": TABLES[tab]})


def apalache_inductive(rep):
    """Unbounded-length argument for the design: StateBound is shown inductive for the sequence-free
    abstraction spec/apalache/DeriveAbs.tla with Apalache (base case, inductive step, Valence as a
    consequence) and a negative control (branch init state off by one) must be refuted."""
    import os
    import shutil
    import subprocess
    from common import SPEC_DIR, scratch
    if shutil.which("apalache-mc") is None:
        rep.notes["apalache"] = "apalache-mc not found: inductive argument skipped"
        return
    work = scratch("apa_")
    src = open(os.path.join(SPEC_DIR, "apalache", "DeriveAbs.tla")).read()
    open(os.path.join(work, "DeriveAbs.tla"), "w").write(src)
    neg = src.replace("MODULE DeriveAbs", "MODULE DeriveAbsNeg").replace("LET b == Min2(fstate[f] - 1, o)", "LET b == Min2(fstate[f], o)")
    open(os.path.join(work, "DeriveAbsNeg.tla"), "w").write(neg)
    runs = [("base case Init => IndInv", "DeriveAbs.tla", ["--init=Init", "--inv=IndInv", "--length=0"], True),
            ("inductive step IndInv /\\ Next => IndInv'", "DeriveAbs.tla", ["--init=IndInit", "--inv=IndInv", "--length=1"], True),
            ("IndInv => Valence", "DeriveAbs.tla", ["--init=IndInit", "--inv=Valence", "--length=0"], True),
            ("negative control (branch init state not decremented) is refuted", "DeriveAbsNeg.tla",
             ["--init=IndInit", "--inv=IndInv", "--length=1"], False)]
    res = []
    for what, mod, args, want_ok in runs:
        try:
            p_ = subprocess.run(["apalache-mc", "check"] + args + ["--out-dir=" + os.path.join(work, "out"), mod], cwd=work,
                                stdout=subprocess.PIPE, stderr=subprocess.STDOUT, timeout=900, text=True)
        except subprocess.TimeoutExpired:
            rep.notes["apalache"] = "timed out on: " + what
            return
        ok = "The outcome is: NoError" in p_.stdout
        err = "The outcome is: Error" in p_.stdout
        if not ok and not err:
            rep.notes["apalache"] = "apalache did not run (%s): %s" % (what, p_.stdout[-300:])
            return
        res.append({"obligation": what, "discharged": ok if want_ok else err})
        if want_ok and err:
            rep.violation("specification-level: Apalache refutes '%s' for DeriveAbs" % what, {"log": p_.stdout[-1500:]})
        if not want_ok and ok:
            raise MachineryError("negative control of the inductive argument was not refuted")
    rep.notes["apalache_inductive_invariant"] = res


def table_sweep(rep, quick):
    """One dict object reused for a parameter sweep: edit, set, decode, edit, set, decode ...  Every decode is
    validated by TLC under the table that is in force (what get_semantic_constraints reports)."""
    sf = de.selfies_mod()
    rng = random.Random(seed() + 4242)
    inputs = [gens.alive_selfies(rng, rng.randint(4, 40)) for _ in range(40 if quick else 300)]
    inputs += [["[C]", "[=C]", "[C]", "[=C]", "[C]", "[=C]", "[Ring1]", "[=Branch1]"], ["[N]", "[#C]", "[=O]"]]
    t = dict(sf.get_preset_constraints("default"))
    groups = []
    try:
        for step, (key, val) in enumerate([("C", 4), ("C", 3), ("C", 2), ("N", 1), ("C", 4), ("O", 0), ("O", 2), ("?", 2), ("C", 1)]):
            t[key] = val
            sf.set_semantic_constraints(t)            # the SAME dict object every time
            # ... followed by updates that must be rejected and must leave the table just installed in force
            for bad in ({k: v for k, v in t.items() if k != "?"}, dict(t, Qq=1, C=0, N=9), dict(t, N=-1, C=0, O=9),
                        dict(t, **{"C": 0, "O": 2.5})):
                try:
                    sf.set_semantic_constraints(bad)
                except ValueError:
                    pass
            now = dict(t)
            recs = []
            for toks in inputs:
                kind, out = de.call_decoder("".join(toks))
                recs.append({"inp": list(toks), "kind": kind, "out": out})
            groups.append((dict(now), recs))
    finally:
        sf.set_semantic_constraints("default")
    for i, (tab, recs) in enumerate(groups):
        trace_validate(rep, "sweep%d" % i, recs, tab)


def sanitizer_clause(rep, quick):
    """Last sentence of C01: default table, robust alphabet, RDKit sanitization as independent judge."""
    try:
        from rdkit import Chem, RDLogger
        RDLogger.DisableLog("rdApp.*")
    except Exception:
        rep.notes["sanitizer"] = "RDKit not importable: clause not judged"
        return
    sf = de.selfies_mod()
    sf.set_semantic_constraints("default")
    alpha = sorted(sf.get_semantic_robust_alphabet())
    rng = random.Random(seed() + 99)
    n = 3000 if quick else 30000
    bad = 0
    for _ in range(n):
        toks = [rng.choice(alpha) for _ in range(rng.randint(1, 40))]
        kind, out = de.call_decoder("".join(toks))
        if kind != "ok":
            rep.violation("robust-alphabet string rejected: %s" % kind, {"tokens": toks})
            continue
        if out and Chem.MolFromSmiles(out) is None:
            bad += 1
            rep.violation("RDKit rejects decoder output %r" % out, {"tokens": toks, "output": out})
    rep.notes["sanitizer_inputs"] = n
    rep.traces += n


# --------------------------------------------------------------------------
# helpers shared by the remaining decoder-side checks
# --------------------------------------------------------------------------

def add_results(rep, name, results, **info):
    st = sum(r.distinct for r in results)
    rep.states += st
    rep.transitions += sum(r.generated for r in results)
    c = {"config": name, "distinct_states": st, "exhaustive": all(r.completed for r in results)}
    c.update(info)
    rep.configs.append(c)
    for r in results:
        if r.violated:
            rep.violation("specification-level: %s violated in %s" % (r.violated, name), {"errors": r.errors[:2]})


def const_checks(rep, impl=True):
    r, failed = de.run_const_checks()
    rep.add_tlc(r, "ConstChecks (ASSUMEs)")
    if failed:
        raise MachineryError("constant-level obligation of the specification is false: %s" % failed)
    bad = []
    if impl:
        txt, names = de.impl_tables_module()
        r, failed = de.run_const_checks(txt, "ImplTables")
        rep.add_tlc(r, "ImplTables (tables of the working tree = tables of the specification)")
        rep.notes["impl_tables_compared"] = names
        bad = failed
    return bad


def trace_validate(rep, name, recs, table, compat=False, classify=default_classify):
    results, events = de.validate_decoder_trace(name, recs, table, compat)
    for r in results:
        rep.states += r.distinct
        rep.transitions += r.generated
    rep.traces += len(recs)
    sz = [len(r["inp"]) if "inp" in r else len(r["raw"]) for r in recs]
    rep.configs.append({"config": "trace_" + name, "calls": len(recs), "symbols": sum(sz),
                        "max_symbols": max(sz or [0]),
                        "machine_steps": sum(r.generated for r in results)})
    bad = {}
    for e in events:
        if e.get("ev") in ("MISMATCH", "CLAUSE"):
            bad.setdefault(e["tid"], e)
    for tid, e in sorted(bad.items()):
        classify(rep, recs[tid], e, table, compat)
    return events


# --------------------------------------------------------------------------
# C13 - [nop] padding is invisible
# --------------------------------------------------------------------------

NOP_ALPHA = ["[nop]", "[C]", "[=C]", "[O]", "[Branch1]", "[=Branch2]", "[Ring1]", "[Ring2]", ".", "[=Ring1]"]


def check_C13(tier):
    rep = Report("C13", tier)
    quick = tier == "quick"
    rep.notes["rule"] = ("all strings up to the bound over an alphabet with [nop]; at every terminal state the "
                         "specification compares with its own run on the [nop]-free string (NopInvisible); each "
                         "vector is replayed twice into selfies.decoder (with and without its [nop]s); "
                         "non-trivial = contains [nop] and at least one other symbol")
    n = 5 if quick else 6
    results, vectors = de.run_decoder_tlc("nop", NOP_ALPHA, "default", n, emit=True, invariants=["NopInvisible"],
                                          fastjit=quick)
    add_results(rep, "nop_default", results, alphabet=NOP_ALPHA, max_symbols=n, vectors=len(vectors))
    vs = [v for v in vectors if "[nop]" in v["inp"]]
    mism = de.replay_decoder_vectors(vs, "default")
    stripped = [dict(v, inp=[t for t in v["inp"] if t != "[nop]"]) for v in vs]
    mism += de.replay_decoder_vectors(stripped, "default")
    rep.traces += 2 * len(vs)
    for v in vs:
        rep.case(tuple(v["inp"]), nontrivial=len(set(v["inp"])) > 1)
    for v in vs[:: max(1, len(vs) // 2)][:2]:
        rep.sample({"input": "".join(v["inp"]), "expect": [v["kind"], v["out"]]})
    judge_mismatches(rep, "nop", mism, "default", False, default_classify)
    # ... and with attribute=True: the whole result (string and attribution list) is unchanged by [nop]
    rng_a = random.Random(seed() + 131)
    for v in (vs if len(vs) < 30000 else rng_a.sample(vs, 30000)):
        a = de.call_decoder("".join(v["inp"]), False, True)
        b = de.call_decoder("".join(t for t in v["inp"] if t != "[nop]"), False, True)
        rep.traces += 1
        if a != b:
            rep.violation("[nop] changes the attributed result of %r: %r vs %r" % ("".join(v["inp"]), a, b),
                          {"tokens": v["inp"], "attribute": True})
    # the same with compatible=True (the [nop] filter sits next to the compatibility mapping)
    results, vectors_c = de.run_decoder_tlc("nop_compat", NOP_ALPHA[:7] + ["[Branch1_2]", "[Expl=Ring1]"], "default", n - 1,
                                            compat=True, emit=True, invariants=["NopInvisible"], fastjit=quick)
    add_results(rep, "nop_compatible", results, max_symbols=n - 1, vectors=len(vectors_c))
    vsc = [v for v in vectors_c if "[nop]" in v["inp"]]
    mism = de.replay_decoder_vectors(vsc, "default", True)
    mism += de.replay_decoder_vectors([dict(v, inp=[t for t in v["inp"] if t != "[nop]"]) for v in vsc], "default", True)
    rep.traces += 2 * len(vsc)
    judge_mismatches(rep, "nop_compat", mism, "default", True, default_classify)
    # long strings with random [nop] insertion + padding through the encoding utilities
    rng = random.Random(seed() * 31 + 13)
    sf = de.selfies_mod()
    pairs = []
    for _ in range(150 if quick else 1500):
        base = [t for t in gens.alive_selfies(rng, rng.randint(3, 80 if quick else 300)) if t != "[nop]"]
        padded = list(base)
        for _ in range(rng.randint(1, 8)):
            padded.insert(rng.randint(0, len(padded)), "[nop]")
        pairs.append((base, padded))
    for tab in ("default", "wide"):
        recs_b = de.record_decoder([b for b, _ in pairs], TABLES[tab])
        recs_p = de.record_decoder([p for _, p in pairs], TABLES[tab])
        for rb, rp in zip(recs_b, recs_p):
            if (rb["kind"], rb["out"]) != (rp["kind"], rp["out"]):
                rep.violation("[nop] changes the result: %r -> %s %r but without [nop] %s %r" % (
                    "".join(rp["inp"]), rp["kind"], rp["out"], rb["kind"], rb["out"]),
                    {"padded": rp["inp"], "base": rb["inp"], "table": TABLES[tab]})
        trace_validate(rep, "C13_%s" % tab, recs_p, TABLES[tab])
    # selfies_to_encoding(pad_to_len) -> encoding_to_selfies -> decoder
    npad = 0
    for base, _ in pairs[: (60 if quick else 400)]:
        s = "".join(base)
        symbols = sorted(set(base) | {"[nop]", "."})
        stoi = {x: i for i, x in enumerate(symbols)}
        itos = {i: x for x, i in stoi.items()}
        try:
            lab = sf.selfies_to_encoding(s, stoi, pad_to_len=len(base) + rng.randint(0, 6), enc_type="label")
            back = sf.encoding_to_selfies(lab, itos, enc_type="label")
        except Exception as e:
            rep.violation("padding utilities raised %s on %r" % (type(e).__name__, s), {"input": s})
            continue
        a, b = de.call_decoder(s), de.call_decoder(back)
        npad += 1
        if a != b:
            rep.violation("padded string decodes differently: %r vs %r" % (a, b), {"input": s, "padded": back})
    # the same for strings that already carry [nop] in the middle or in front (padding is not always trailing)
    for base, padded in pairs[: (60 if quick else 400)]:
        s = "".join(padded)
        symbols = sorted(set(padded) | {"[nop]", "."})
        stoi = {x: i for i, x in enumerate(symbols)}
        itos = {i: x for x, i in stoi.items()}
        for et in ("label", "one_hot"):
            try:
                enc = sf.selfies_to_encoding(s, stoi, pad_to_len=len(padded) + rng.randint(0, 4), enc_type=et)
                back = sf.encoding_to_selfies(enc, itos, enc_type=et)
            except Exception as e:
                rep.violation("padding utilities raised %s on %r" % (type(e).__name__, s), {"input": s})
                continue
            a, b = de.call_decoder("".join(base)), de.call_decoder(back)
            npad += 1
            if a != b:
                rep.violation("a string with interior [nop], padded and recovered through the %s encoding, decodes differently: "
                              "%r vs %r" % (et, a, b), {"input": s, "recovered": back})
    rep.traces += npad
    rep.notes["padding_round_trips"] = npad
    rep.exhaustive = True
    return rep.finish()


# --------------------------------------------------------------------------
# C18 - compatible=True is a conservative extension
# --------------------------------------------------------------------------

def check_C18(tier):
    rep = Report("C18", tier)
    quick = tier == "quick"
    rep.notes["rule"] = ("all strings up to the bound over an alphabet mixing modern and pre-v2 symbols, with the "
                         "flag on and off; CompatIsModern at terminal states; ConstChecks: Modernize fixes every "
                         "modern symbol and maps the legacy table as documented; non-trivial = contains a legacy symbol")
    bad = const_checks(rep, impl=False)
    n = 4 if quick else 5
    for compat in (True, False):
        results, vectors = de.run_decoder_tlc("legacy_%s" % compat, LEGACY, "default", n, compat=compat, emit=True,
                                              invariants=["CompatIsModern"], fastjit=quick)
        add_results(rep, "legacy_compat=%s" % compat, results, alphabet=LEGACY, max_symbols=n, vectors=len(vectors))
        mism = de.replay_decoder_vectors(vectors, "default", compat)
        rep.traces += len(vectors)
        for v in vectors:
            rep.case((compat, tuple(v["inp"])), nontrivial=any("xpl" in t or "_" in t for t in v["inp"]))
        for v in vectors[:: max(1, len(vectors) // 2)][:2]:
            rep.sample({"compatible": compat, "input": "".join(v["inp"]), "expect": [v["kind"], v["out"]]})
        judge_mismatches(rep, "legacy_%s" % compat, mism, "default", compat, default_classify)
    results, vectors = de.run_decoder_tlc("legacy2", LEGACY2, "default", 3 if quick else 4, compat=True, emit=True,
                                          invariants=["CompatIsModern"], fastjit=quick)
    add_results(rep, "legacy2_compat=True", results, alphabet=LEGACY2, vectors=len(vectors))
    rng2 = random.Random(seed() + 18)
    rng2.shuffle(vectors)          # one process sees the same legacy atom with different bond prefixes
    mism = de.replay_decoder_vectors(vectors[:20000], "default", True)
    rep.traces += min(len(vectors), 20000)
    judge_mismatches(rep, "legacy2", mism, "default", True, default_classify)
    # modern-only strings over the broad alphabets and tables: flag on = flag off, whatever the outcome
    for tab, vectors in broad_vectors(rep, quick, "mo"):
        de.set_table(TABLES[tab])
        try:
            for v in vectors:
                s_ = "".join(v["inp"])
                a, b = de.call_decoder(s_, False), de.call_decoder(s_, True)
                rep.traces += 1
                if a != b:
                    rep.violation("compatible=True changes a string without legacy symbols under table %s: %r: %r vs %r" % (
                        tab, s_, a, b), {"tokens": v["inp"], "table": TABLES[tab]})
        finally:
            de.set_table("default")
    # modern-only strings: flag on = flag off (long random strings)
    rng = random.Random(seed() + 1818)
    inputs = [gens.alive_selfies(rng, rng.randint(3, 120)) for _ in range(200 if quick else 2000)]
    r_off = de.record_decoder(inputs, "default", False)
    r_on = de.record_decoder(inputs, "default", True)
    for a, b in zip(r_off, r_on):
        if (a["kind"], a["out"]) != (b["kind"], b["out"]):
            rep.violation("compatible=True changes a string without legacy symbols: %r" % "".join(a["inp"]),
                          {"tokens": a["inp"], "off": [a["kind"], a["out"]], "on": [b["kind"], b["out"]]})
    trace_validate(rep, "C18_modern_on", r_on, "default", True)
    # random mixes of legacy and modern symbols, flag on
    mixes = []
    for _ in range(200 if quick else 2000):
        t = gens.alive_selfies(rng, rng.randint(3, 60))
        for _ in range(rng.randint(1, 5)):
            t.insert(rng.randint(0, len(t)), rng.choice(LEGACY[2:13]))
        mixes.append(t)
    trace_validate(rep, "C18_mix_on", de.record_decoder(mixes, "default", True), "default", True)
    trace_validate(rep, "C18_mix_off", de.record_decoder(mixes, "default", False), "default", False)
    # text that is not a well-formed SELFIES string: the flag changes nothing there either (same outcome kind, and
    # the specification's outcome for the text) - enumerated text without legacy symbols, and legacy / modern
    # mixes cut at an arbitrary character
    chars = ["[", "]", ".", "C", "x"]
    results, vectors = de.run_decoder_tlc("c18text", [], "default", 0, emit=True, emit_name="TextEmit", spec="TextSpec",
                                          extends="DecodeText", raw=(chars, 5 if quick else 7), fastjit=quick)
    add_results(rep, "text<=%d over %s, flag on and off" % (5 if quick else 7, "".join(chars)), results, vectors=len(vectors))
    for v in vectors:
        a, b = de.call_decoder(v["raw"], False), de.call_decoder(v["raw"], True)
        rep.traces += 1
        if a != b:
            rep.violation("compatible=True changes the outcome for the text %r: %r vs %r" % (v["raw"], a, b), {"input": v["raw"]})
    cuts = []
    for t in mixes[: (150 if quick else 1500)]:
        s_ = "".join(t)[:600]
        for _ in range(2):
            cuts.append(s_[: rng.randint(1, len(s_))])
    for flag in (True, False):
        recs = []
        for c_ in cuts:
            kind, val = de.call_decoder(c_, flag)
            recs.append({"raw": c_, "kind": kind, "out": val})
        trace_validate(rep, "C18_cut_%s" % flag, recs, "default", flag)
    rep.exhaustive = True
    return rep.finish()


# --------------------------------------------------------------------------
# C16 - index symbols: base-16 positional code
# --------------------------------------------------------------------------

def index_code_inductive(rep):
    """For ALL naturals (no bound on n): spec/apalache/IndexAbs.tla - the digit-by-digit writer with the decoder's
    running value beside it; n0 = rem * w + val is inductive over the unbounded integers, so decoding the finished
    code gives n, and zero padding does not change it.  Negative configuration: a zero digit that does not
    advance the weight (the slip of seeded change C16_r3A)."""
    from common import SPEC_DIR, scratch, apalache_obligations
    src = open(os.path.join(SPEC_DIR, "apalache", "IndexAbs.tla")).read()
    neg = src.replace("MODULE IndexAbs", "MODULE IndexAbsNeg").replace("/\\ w' = Base * w\n              /\\ rem' = rem \\div Base",
                                                                     "/\\ w' = IF d = 0 THEN w ELSE Base * w\n              /\\ rem' = rem \\div Base")
    if neg.count("IF d = 0") != 1:
        raise MachineryError("IndexAbs negative configuration: substitution did not apply")
    runs = [("base case Init => IndInv (all n)", "IndexAbs", ["--init=Init", "--inv=IndInv", "--length=0"], True),
            ("inductive step IndInv /\\ Next => IndInv'", "IndexAbs", ["--init=IndInit", "--inv=IndInv", "--length=1"], True),
            ("IndInv => (finished => decoded value = n)", "IndexAbs", ["--init=IndInit", "--inv=RoundTrip", "--length=0"], True),
            ("negative: a zero digit that does not advance the weight is refuted", "IndexAbsNeg",
             ["--init=IndInit", "--inv=IndInv", "--length=1"], False)]
    apalache_obligations(rep, scratch("apa_idx_"), {"IndexAbs": src, "IndexAbsNeg": neg}, runs, "apalache_index_code_all_naturals")


def check_C16(tier):
    rep = Report("C16", tier)
    quick = tier == "quick"
    rep.notes["rule"] = ("constant level: all n < 16^3 and all symbol triples (ConstChecks); binding through the public "
                         "API: decoder on chains with every index-symbol tuple after ring / branch symbols, encoder on "
                         "macrocycles and long branches for every n; non-trivial = index value > 0")
    index_code_inductive(rep)
    bad = const_checks(rep, impl=True)
    for f in bad:
        if "ImplIndex" in f or "A0" in f:
            rep.violation("the working tree's INDEX_ALPHABET differs from the documented order", {"assumption": f})
    digits = IDX + ["[F]", "[=Ring1]"]
    inputs = []
    rng = random.Random(seed() + 16)
    # one index symbol, and a missing symbol at the end of the string
    for a in digits:
        inputs.append(["[C]"] * 20 + ["[Ring1]", a, "[C]"])
        inputs.append(["[C]"] * 3 + ["[Branch1]", a] + ["[C]"] * 18)
        inputs.append(["[C]"] * 20 + ["[Ring2]", a])
        inputs.append(["[C]"] * 20 + ["[Ring3]", a])
    # two index symbols: every pair (thorough) / a sample of pairs covering every digit in both places (quick)
    pairs = [(a, b) for a in digits for b in digits]
    if quick:
        pairs = [(a, digits[(i * 7 + 3) % len(digits)]) for i, a in enumerate(digits)] + \
                [(digits[(i * 5 + 1) % len(digits)], b) for i, b in enumerate(digits)] + rng.sample(pairs, 20)
    for a, b in pairs:
        q = 16 * (IDX.index(a) if a in IDX else 0) + (IDX.index(b) if b in IDX else 0)
        inputs.append(["[C]"] * (q + 4) + ["[Ring2]", a, b, "[C]"])
        if not quick or rng.random() < 0.3:
            inputs.append(["[C]"] * 3 + ["[Branch2]", a, b] + ["[C]"] * (q + 3) + ["[O]"])
    # three index symbols
    tri = [(a, b, c) for a in digits[:3] + ["[F]"] for b in digits for c in digits]
    tri = rng.sample(tri, 24 if quick else 400)
    if not quick:
        tri += [(a, b, c) for a in digits[3:6] for b in digits[::5] for c in digits[::7]]
    for a, b, c in tri:
        q = 256 * (IDX.index(a) if a in IDX else 0) + 16 * (IDX.index(b) if b in IDX else 0) + \
            (IDX.index(c) if c in IDX else 0)
        inputs.append(["[C]"] * (q + 4) + ["[Ring3]", a, b, c, "[C]"])
    # every CLASS of symbol in an index position: atoms, branch / ring symbols, legacy spellings, symbols outside
    # the grammar - all count as zero, with and without the compatible flag
    others = ["[13CH3]", "[N+1]", "[=O]", "[#C]", "[/C]", "[Ring3]", "[#Branch3]", "[=Branch1]", "[-/Ring2]", "[epsilon]",
              "[Foo]", "[Branch1_2]", "[Branch2_1]", "[Expl=Ring1]", "[Oexpl]", "[=Nexpl]", "[#Cexpl]", "[Sexpl]", "[C@@Hexpl]"]
    legacy_inputs = []
    for o in others:
        for ctx in (["[C]"] * 20 + ["[Ring1]", o, "[C]"], ["[C]"] * 20 + ["[Ring2]", "[Ring1]", o, "[C]"],
                    ["[C]"] * 40 + ["[Ring2]", o, "[Ring1]", "[C]"], ["[C]"] * 3 + ["[Branch1]", o] + ["[C]"] * 12,
                    ["[C]"] * 3 + ["[Branch2]", o, "[Ring2]"] + ["[C]"] * 12):
            (legacy_inputs if ("expl" in o.lower() or "_" in o) else inputs).append(ctx)
    # index symbols that lie past the budget of the branch in which their ring / branch symbol stands: they are
    # still read from the stream (and count against no budget)
    for a in digits[:: (3 if quick else 1)]:
        for pre in (4, 20):
            inputs.append(["[C]"] * pre + ["[Branch1]", "[C]", "[Ring1]", a, "[O]", "[N]"])
            inputs.append(["[C]"] * pre + ["[Branch1]", "[Ring1]", "[C]", "[Ring2]", a, "[Ring1]", "[O]", "[N]"])
            inputs.append(["[C]"] * pre + ["[=Branch1]", "[Ring1]", "[C]", "[Branch1]", a, "[O]", "[N]", "[S]", "[P]"])
            inputs.append(["[C]"] * pre + ["[Branch1]", "[Ring2]", "[C]", "[Branch1]", "[C]", "[Ring1]", a, "[O]", "[N]"])
    recs = de.record_decoder(inputs, "default")
    for rec in recs:
        rep.case(tuple(rec["inp"][-5:]) + (len(rec["inp"]),), nontrivial=True)
    rep.sample({"input": "[C]*300 + [Ring2][=N][S][C]", "meaning": "ring closes 16*11+14+1 atoms back"})
    for compat in (False, True):
        lrecs = de.record_decoder(legacy_inputs, "default", compat)
        trace_validate(rep, "C16_legacy_%s" % compat, lrecs, "default", compat)
    trace_validate(rep, "C16_decoder", recs, "default")
    try:
        import checks_enc
        checks_enc.index_encoder_side(rep, quick)
    except ImportError:
        rep.notes["encoder_side"] = "not built yet"
    rep.exhaustive = True
    return rep.finish()


# --------------------------------------------------------------------------
# C07 - any string over the semantically robust alphabet is a valid molecule
# --------------------------------------------------------------------------

KEYPOOL = ["?", "C", "N+1", "Fe+10", "O-1", "H", "Cl-2", "S", "C+0", "C-01", "Xx", "C+", "+1", "c", "C+1-1", "N1",
           "N+1 ", "N+ 1", "Fe+1_0", " C", "O-\t2", "N+1.0", "C+1e1"]


def check_C07(tier):
    rep = Report("C07", tier)
    quick = tier == "quick"
    rep.notes["rule"] = ("TLC enumerates every table over subsets of a key pool (valid and malformed keys, capacities "
                         "incl. negative, 0 and > 8), decides acceptance and the robust alphabet; each is replayed into "
                         "set_semantic_constraints / get_semantic_robust_alphabet (acceptance and set equality); strings "
                         "over the alphabet are enumerated / traced through the decoder machine; non-trivial = accepted "
                         "table with at least one atom key")
    sf = de.selfies_mod()
    r, vectors = de.run_table_space(KEYPOOL if not quick else KEYPOOL[:10] + KEYPOOL[16:21], [-1, 0, 1, 3, 9], 3 if not quick else 2)
    rep.add_tlc(r, "TableSpace")
    if r.violated:
        rep.violation("specification-level: %s" % r.violated, {"errors": r.errors[:2]})
    nvalid = 0
    last_ok = None
    rng_t = random.Random(seed() + 707)
    rng_t.shuffle(vectors)          # valid and invalid tables interleaved
    try:
        for v in vectors:
            t = v["table"]
            rep.case(tuple(sorted(t.items())), nontrivial=v["valid"] and len(t) > 1)
            try:
                sf.set_semantic_constraints(dict(t))
                acc = True
            except ValueError:
                acc = False
            except Exception as e:
                rep.violation("set_semantic_constraints(%r) raised %s" % (t, type(e).__name__), {"table": t})
                continue
            rep.traces += 1
            if not acc and last_ok is not None:
                if sf.get_semantic_constraints() != last_ok[0] or set(sf.get_semantic_robust_alphabet()) != last_ok[1]:
                    rep.violation("after the rejected table %r the table / alphabet in force is not that of the last "
                                  "accepted table %r" % (t, last_ok[0]), {"rejected": t, "last_accepted": last_ok[0]})
                    sf.set_semantic_constraints(dict(last_ok[0]))
            if acc != v["valid"]:
                rep.violation("table %r: library %s it, the specification %s it" % (
                    t, "accepts" if acc else "rejects", "accepts" if v["valid"] else "rejects"), {"table": t})
            elif acc:
                nvalid += 1
                got = sf.get_semantic_robust_alphabet()
                want = set(v["alphabet"])
                last_ok = (dict(t), set(want))
                if set(got) != want:
                    rep.violation("robust alphabet for %r: missing %s, extra %s" % (
                        t, sorted(want - set(got))[:5], sorted(set(got) - want)[:5]), {"table": t})
        for v in vectors[:: max(1, len(vectors) // 3)][:3]:
            rep.sample({"table": v["table"], "accepted": v["valid"], "alphabet_size": len(v["alphabet"])})
    finally:
        sf.set_semantic_constraints("default")
    rep.notes["tables_enumerated"] = len(vectors)
    rep.notes["tables_accepted"] = nvalid
    # strings over the alphabet: enumeration over sub-alphabets, with the C01 clauses and NeverInvalid
    odd = {"?": 2, "Fe+10": 9, "O-1": 0, "C": 3, "N+1": 1, "Cl-2": 12}
    n = 4 if quick else 5
    for tname, tab in (("default", "default"), ("odd", odd), ("tight", TABLES["tight"])):
        set_ok = True
        sf.set_semantic_constraints(tab if isinstance(tab, str) else dict(tab))
        alpha = sorted(sf.get_semantic_robust_alphabet())
        sf.set_semantic_constraints("default")
        atoms = [s for s in alpha if "Ring" not in s and "Branch" not in s]
        rng = random.Random(seed() + len(alpha))
        sub = sorted(set(rng.sample(atoms, min(8, len(atoms))) + ["[Branch1]", "[=Branch1]", "[Ring1]", "[=Ring1]", "[#Branch2]", "[Ring2]"]))
        results, vecs = de.run_decoder_tlc("ra_%s" % tname, sub, tab, n, emit=True,
                                           invariants=de.C01_INVARIANTS + ["NeverInvalid"], fastjit=quick)
        add_results(rep, "robust_%s" % tname, results, alphabet=sub, max_symbols=n, vectors=len(vecs))
        mism = de.replay_decoder_vectors(vecs, tab)
        rep.traces += len(vecs)
        judge_mismatches(rep, "ra_%s" % tname, mism, tab, False, default_classify)
        # long random strings over the *returned* alphabet
        inputs = [[rng.choice(alpha) for _ in range(rng.randint(1, 80 if quick else 300))] for _ in range(150 if quick else 1500)]
        recs = de.record_decoder(inputs, tab)
        for rec in recs:
            if rec["kind"] != "ok":
                rep.violation("string over the robust alphabet of table %s is rejected (%s): %r" % (
                    tname, rec["kind"], "".join(rec["inp"])[:200]), {"tokens": rec["inp"], "table": tab})
        trace_validate(rep, "C07_%s" % tname, recs, tab)
    narrow_deep(rep, quick, random.Random(seed() + 77))
    rep.exhaustive = True
    return rep.finish()


# --------------------------------------------------------------------------
# C08 - the decoder is total and terminates
# --------------------------------------------------------------------------

FUZZ_CHARS = list("[]..CNOH=#@+-123/\\xBranchRingepsilo_ {}%") + ["é", "²", "٣", "½", " ", "€", "{}", "{0}", "%s", "{x}"]
# text that means something to str.format / % / templates, inside and outside brackets
FORMAT_TEXT = ["[C][{}]", "[C][{x}][O]", "[C][C{]", "[C][}]", "[C].[N][{0.real}]", "[%s]", "[C][%(x)s]", "[C][%d][C]", "[{0}]",
               "[C][{0}{1}]", "[C][{{}}]", "[C][{!r}]", "[C][{:>10}]", "[$x]", "[C][\\N]", "[C][\\x41]", "{}", "[C]{}", "%s[C]",
               "[C][{selfies}]", "[C][{symbol}]", "[C][{0[0]}]", "[Branch1][{}]", "[C][Ring1][{}]", "[C][=Branch1][{x}][C]"]


def big_number_selfies():
    out = []
    fields = ["[%sC]", "[CH%s]", "[C+%s]", "[C-%s]", "[=N+%s]", "[13C@H%s]", "[#C-%s]"]
    ctxs = ["%s", "[C]%s[C]", "[C][=C]%s", "[C][C]%s[Ring1][Ring1]", "[C][Branch1][C]%s[C]", "[C][Branch1]%s[C][C]", "[O].%s"]
    for tmpl in fields:
        for nd in (20, 310, 400, 4299, 4301, 5000):
            for dig in ("9", "1"):
                for c in ctxs:
                    out.append(("%s with %d digits in %s" % (tmpl % "N", nd, c % "X"), c % (tmpl % (dig * nd))))
    return out


def check_C08(tier):
    import time as _time
    rep = Report("C08", tier)
    quick = tier == "quick"
    rep.notes["rule"] = ("design side: the text pipeline (lexer + machine) has exactly two terminal outcomes and every "
                         "behaviour terminates (TLC liveness under weak fairness); code side: every enumerated / "
                         "fuzzed text x {compatible, attribute} returns or raises DecoderError, within a time bound, "
                         "and leaves the constraint table untouched; non-trivial = not well-formed or >= 2 symbols")
    sf = de.selfies_mod()
    chars = ["[", "]", ".", "C", "x"]
    n = 6 if quick else 8
    results, vectors = de.run_decoder_tlc("text", [], "default", 0, emit=True, emit_name="TextEmit", spec="TextSpec",
                                          extends="DecodeText", raw=(chars, n), fastjit=quick,
                                          invariants=["InvValence", "ScanIsSplit"])
    add_results(rep, "text<=%d over %s" % (n, "".join(chars)), results, vectors=len(vectors))
    # liveness on a smaller instance (weak fairness, no state constraint)
    results, _ = de.run_decoder_tlc("live", [], "default", 0, spec="TextFair", extends="DecodeText",
                                    raw=(chars, 4 if quick else 5), properties=["TextTerminates"], fastjit=quick)
    add_results(rep, "liveness TextTerminates", results)
    results, _ = de.run_decoder_tlc("live_sym", DEC["frag"][:8] + ["[Foo]"], "default", 3, spec="FairSpec",
                                    properties=["Terminates"], fastjit=quick)
    add_results(rep, "liveness Terminates (symbol level)", results)

    def totality(raw, spec_kind=None, wf=False, budget=20.0):
        before = sf.get_semantic_constraints()
        for compat in (False, True):
            for attr in (False, True):
                t0 = _time.time()
                kind, val = de.call_decoder(raw, compat, attr)
                dt = _time.time() - t0
                rep.traces += 1
                if kind not in ("ok", "DecoderError"):
                    yield "decoder(%r, compatible=%s, attribute=%s) raised %s" % (raw[:120], compat, attr, kind), kind
                if dt > budget:
                    yield "decoder took %.1fs on %d characters" % (dt, len(raw)), "timeout"
        if sf.get_semantic_constraints() != before:
            sf.set_semantic_constraints("default")
            yield "decoder changed the constraint table", "state"

    for v in vectors:
        rep.case(v["raw"], nontrivial=(not v["wf"]) or len(v["toks"]) >= 2)
        for msg, k in totality(v["raw"]):
            rep.violation(msg, {"input": v["raw"]})
    # 'x' stands for every character that is not '[', ']', '.', and does not complete a symbol of the grammar:
    # the vectors are replayed again with x filled from a pool of such characters; in the well-formed region the
    # outcome kind is the specification's
    pool = ["\n", "\r", "\t", " ", "\x00", "\\", "'", '"', "(", "{", "}", "*", "?", "^", "$", "|", "%", "é", "\u2028", "②", "\x0b", "\x85"]
    rng_c = random.Random(seed() * 7 + 8)
    for v in vectors:
        if "x" not in v["raw"]:
            continue
        raw = "".join(rng_c.choice(pool) if c == "x" else c for c in v["raw"])
        for msg, k in totality(raw):
            rep.violation(msg, {"input": raw})
        if v["wf"]:
            kind = de.call_decoder(raw)[0]
            if kind != v["kind"]:
                rep.violation("decoder(%r) -> %s, specification %s (text with the shape %r)" % (raw, kind, v["kind"], v["raw"]),
                              {"input": raw})
    for v in vectors[:: max(1, len(vectors) // 3)][:3]:
        rep.sample({"text": v["raw"], "spec_outcome": v["kind"]})
    # symbol-level: symbols outside the grammar, legacy symbols, zero-capacity and H-rich atoms, all flags,
    # and the same inputs again after the constraint table has been switched (loose -> tight -> loose)
    hrich = ["[C]", "[=C]", "[CH4]", "[NH4]", "[OH2]", "[NH3]", "[CH5]", "[Branch1]", "[=Branch1]", "[Ring1]", "[O]", ".", "[BH4]"]
    # pre-v2 spellings whose modern form is itself outside the grammar (rejected only after modernisation)
    leg_bad = ["[C]", "[CH5expl]", "[=OH3expl]", "[NH5+expl]", "[Fooexpl]", "[C@@@expl]", "[Branch1_4]", "[Expl~Ring1]", "[=Branch1]", "[Ring1]",
               "[FH2expl]", "[expl]", "[=expl]"]
    sym_inputs = []
    for nm, alpha, ml in (("bad+legacy", DEC["bad"] + LEGACY[2:8], 3 if quick else 4), ("caps", DEC["caps"], 3 if quick else 4),
                          ("hrich", hrich, 4 if quick else 5), ("frag", DEC["frag"], 3 if quick else 4),
                          ("legacy_bad", leg_bad, 3 if quick else 4),
                          # rings that reach across '.' into earlier fragments, rings on rings: long strings over few symbols
                          ("dots_rings", ["[C]", "[Ring1]", "[Ring2]", "."], 7 if quick else 9)):
        results, vecs = de.run_decoder_tlc("sym_" + nm.replace("+", "_"), alpha, "default", ml, emit=True, fastjit=quick)
        add_results(rep, "symbol level: " + nm, results, vectors=len(vecs))
        grp = sorted(set("".join(v["inp"]) for v in vecs))
        rng0 = random.Random(seed() + 808 + len(grp))
        if quick and len(grp) > 3500:           # every configuration keeps its share of the replay budget
            grp = rng0.sample(grp, 3500)
        sym_inputs += grp
    sym_inputs = sorted(set(sym_inputs))
    try:
        for tab in ("hypervalent", "default", TABLES["tight"], TABLES["wide"], "octet_rule", "default"):
            sf.set_semantic_constraints(tab if isinstance(tab, str) else dict(tab))
            for s_ in sym_inputs:
                for msg, k in totality(s_):
                    rep.violation(msg + " [table %s, after earlier calls under other tables]" % tabname(tab),
                                  {"input": s_, "table": tab})
    finally:
        sf.set_semantic_constraints("default")
    # fuzz: TLC judges the ASCII part (precise where well-formed), the harness only the exception type elsewhere
    rng = random.Random(seed() * 3 + 8)
    fuzz = []
    for _ in range(600 if quick else 6000):
        L = rng.randint(0, 40)
        fuzz.append("".join(rng.choice(FUZZ_CHARS) for _ in range(L)))
    for _ in range(150 if quick else 1500):         # many fragments, rings reaching back across dots
        fuzz.append("".join(gens.alive_selfies(rng, rng.randint(4, 60), p_dot=0.1, p_nop=0.03, p_ring=0.3)))
    for _ in range(200 if quick else 2000):
        t = gens.alive_selfies(rng, rng.randint(2, 40))
        s = "".join(t)
        for _ in range(rng.randint(1, 3)):
            p = rng.randint(0, len(s))
            s = s[:p] + rng.choice(FUZZ_CHARS) + s[p + rng.randint(0, 1):]
        fuzz.append(s)
    fuzz += FORMAT_TEXT
    recs = []
    for s in fuzz:
        for msg, k in totality(s):
            rep.violation(msg, {"input": s})
        if all(ord(c) < 127 and c != '"' for c in s):
            kind, val = de.call_decoder(s)
            recs.append({"raw": s, "kind": kind, "out": val})
    for r_ in recs:
        rep.case(r_["raw"], nontrivial=True)
    trace_validate(rep, "C08_fuzz", recs, "default")
    # size: very long inputs, deep nesting, huge numbers
    big = [("long chain", "[C]" * (20000 if quick else 40000)),
           ("long alive", "".join(gens.alive_selfies(rng, 10000 if quick else 30000))),
           ("100+ rings open at once", "".join(gens.many_open_rings(105))),
           ("100+ rings open at once, second fragment", "[O]." + "".join(gens.many_open_rings(101))),
           ("nesting 300", "".join(gens.deep_branches(300))),
           ("many dots", "[C]." * 5000),
           ("brackets", "[" * 5000), ("closers", "]" * 5000 + "[C]"),
           ("oversized index", "[C][Ring3][P][P][P]" * 300),
           ("isotope 5000 digits", "[" + "1" * 5000 + "C]"),
           ("charge 5000 digits", "[C+" + "1" * 5000 + "]"),
           ("nesting 1200", "".join(gens.deep_branches(1200))),
           ("nesting 6000", "".join(gens.deep_branches(6000)))]
    bn = big_number_selfies()
    if quick:
        bn = bn[seed() % 2::2]
    rep.notes["big_number_inputs"] = len(bn)
    for what, s in big + bn:
        for msg, k in totality(s, budget=200.0):
            f = [x for x in rep.findings if x.get("signature") == "decoder:nesting-deeper-than-recursion-limit"]
            if k == "RecursionError" and what.startswith("nesting") and f:
                rep.known(f[0]["id"], f[0]["what"])
            else:
                rep.violation("%s: %s" % (what, msg), {"input_description": what, "length": len(s)})
    rep.notes["big_inputs"] = [w for w, _ in big]
    rep.exhaustive = True
    rep.assumptions += ["termination of the code is observed with a time bound (20 s, 60 s for the giant inputs), not proved",
                        "non-ASCII text is judged on the exception type only; TLC judges ASCII text"]
    return rep.finish()


# --------------------------------------------------------------------------
# C14 - tokenisation utilities
# --------------------------------------------------------------------------

def check_C14(tier):
    rep = Report("C14", tier)
    quick = tier == "quick"
    rep.notes["rule"] = ("all strings up to the bound over {[, ], ., x}: on well-formed ones Split/concat/len/alphabet "
                         "are specified exactly (and MC-checked against the decoder's scanner), each is replayed into "
                         "split_selfies, len_selfies, get_alphabet_from_selfies; elsewhere only totality; "
                         "non-trivial = well-formed with >= 2 tokens")
    sf = de.selfies_mod()
    chars = ["[", "]", ".", "x"]
    n = 8 if quick else 10
    results, vectors = de.run_decoder_tlc("split", [], "default", 0, emit=True, emit_name="TextEmit", spec="TextSpec",
                                          extends="DecodeText", raw=(chars, n), fastjit=quick,
                                          invariants=["ScanIsSplit", "SplitConcat", "SplitCount"])
    add_results(rep, "text<=%d over %s" % (n, "".join(chars)), results, vectors=len(vectors))
    wf = [v for v in vectors if v["wf"]]
    rep.notes["well_formed"] = len(wf)
    for v in vectors:
        raw = v["raw"]
        rep.traces += 1
        try:
            got = list(sf.split_selfies(raw))
            err = None
        except ValueError:
            got, err = None, "ValueError"
        except Exception as e:
            rep.violation("split_selfies(%r) raised %s" % (raw, type(e).__name__), {"input": raw})
            continue
        if v["wf"]:
            rep.case(raw, nontrivial=len(v["toks"]) >= 2)
            if got != v["toks"]:
                rep.violation("split_selfies(%r) = %r, specification %r" % (raw, got, v["toks"]), {"input": raw})
            elif "".join(got) != raw:
                rep.violation("concatenation of split_selfies(%r) is not the input" % raw, {"input": raw})
            if sf.len_selfies(raw) != len(v["toks"]):
                rep.violation("len_selfies(%r) = %d, %d tokens" % (raw, sf.len_selfies(raw), len(v["toks"])), {"input": raw})
    # 'x' stands for every character other than '[', ']' and '.': the specification's Split does not look at it.
    # Each vector is replayed again with the x positions filled from a pool of concrete characters (line ends,
    # blanks, NUL, quotes, regex / format metacharacters, non-ASCII) - the tokens are substituted alike.
    pool = ["\n", "\r", "\t", " ", "\x00", "\\", "'", '"', "(", ")", "{", "}", "*", "?", "+", "^", "$", "|", "%", "#", "=",
            "C", "1", "é", "\u2028", "\u00a0", "②", "\U0001F600", "\x0b", "\x0c", "\x1c", "\x85"]
    rng_c = random.Random(seed() * 7 + 14)
    for v in vectors:
        if "x" not in v["raw"]:
            continue
        for _ in range(2 if quick else 4):
            subs = [rng_c.choice(pool) for _ in range(v["raw"].count("x"))]
            it = iter(subs)
            raw = "".join(next(it) if c == "x" else c for c in v["raw"])
            it = iter(subs)
            toks = ["".join(next(it) if c == "x" else c for c in t) for t in v["toks"]]
            rep.traces += 1
            try:
                got = list(sf.split_selfies(raw))
            except ValueError:
                got = None
            except Exception as e:
                rep.violation("split_selfies(%r) raised %s" % (raw, type(e).__name__), {"input": raw})
                continue
            if v["wf"]:
                if got != toks:
                    rep.violation("split_selfies(%r) = %r, specification %r" % (raw, got, toks), {"input": raw})
                elif sf.len_selfies(raw) != len(toks) or sf.get_alphabet_from_selfies([raw]) != set(toks) - {"."}:
                    rep.violation("len_selfies / get_alphabet_from_selfies disagree with the tokens of %r" % raw, {"input": raw})
    for v in wf[:: max(1, len(wf) // 3)][:3]:
        rep.sample({"text": v["raw"], "tokens": v["toks"]})
    # the utilities stay consistent whatever was called before: pad a string through selfies_to_encoding
    # (which tokenises it too), then tokenise the same string again
    rng_h = random.Random(seed() + 141)
    for v in (wf if len(wf) < 3000 else rng_h.sample(wf, 3000)):
        raw = v["raw"]
        if not v["toks"]:
            continue
        vocab = {t: i for i, t in enumerate(sorted(set(v["toks"]) | {"[nop]", "."}))}
        try:
            sf.selfies_to_encoding(raw, vocab, pad_to_len=len(v["toks"]) + 2, enc_type="label")
            sf.batch_selfies_to_flat_hot([raw], vocab, len(v["toks"]) + 3)
        except Exception:
            pass
        rep.traces += 1
        got = list(sf.split_selfies(raw))
        if got != v["toks"] or sf.len_selfies(raw) != len(v["toks"]) or \
                sf.get_alphabet_from_selfies([raw]) != set(v["toks"]) - {"."}:
            rep.violation("after selfies_to_encoding(%r, pad_to_len=...) the tokenisation of the same string changed: %r" % (raw, got),
                          {"input": raw})
    # finite collections: alphabet = symbols occurring, without the dot
    rng = random.Random(seed() + 14)
    # symbols that mean something elsewhere in the library ([nop], [epsilon], index / ring / branch symbols) are
    # ordinary symbols for the tokenisation utilities
    real = ["[C][nop][O]", "[nop]", "[C].[nop]", "[nop][nop][C]", "[epsilon][C]", "[C][Branch1][C][O][Ring1][Ring2]", "[C].[C]",
            "[=C][#N]", "[C@@H1][N+1]", "", "[Expl=Ring1][Cexpl]", "[.C]"[:1] + "C]"]
    wf = wf + [{"raw": r_, "toks": de.split_tokens(r_)} for r_ in real]
    for _ in range(300 if quick else 3000):
        coll = rng.sample(wf, rng.randint(0, 6))
        want = set(t for v in coll for t in v["toks"]) - {"."}
        got = sf.get_alphabet_from_selfies([v["raw"] for v in coll])
        rep.traces += 1
        if got != want:
            rep.violation("get_alphabet_from_selfies(%r) = %r, expected %r" % ([v["raw"] for v in coll], got, want),
                          {"collection": [v["raw"] for v in coll]})
    # realistic symbols: tokens of long strings, the decoder consumes exactly these tokens
    toks_inputs = [gens.alive_selfies(rng, rng.randint(1, 60)) for _ in range(200 if quick else 2000)]
    for t in toks_inputs:
        s = "".join(t)
        rep.traces += 1
        if list(sf.split_selfies(s)) != t or sf.len_selfies(s) != len(t):
            rep.violation("split_selfies / len_selfies disagree with the symbols of %r" % s[:200], {"input": s})
    recs = de.record_decoder(toks_inputs, "default")
    trace_validate(rep, "C14_tokens", recs, "default")
    try:
        import checks_enc
        checks_enc.encoder_outputs_well_formed(rep, quick)
    except ImportError:
        rep.notes["encoder_side"] = "not built yet"
    rep.exhaustive = True
    return rep.finish()


def broad_vectors(rep, quick, tag):
    """Specification vectors over several alphabets and tables (as C02 enumerates them), for checks whose
    oracle is an equality between two runs of the implementation (flags, histories)."""
    out = []
    n = 3 if quick else 4
    for alpha, tab in (("branch", "default"), ("ring", "default"), ("frag", "default"), ("caps", "tight"),
                       ("caps", "hypervalent"), ("bad", "default")):
        results, vectors = de.run_decoder_tlc("%s_%s_%s" % (tag, alpha, tab), DEC[alpha], TABLES[tab], n, emit=True, fastjit=True)
        add_results(rep, "%s_%s_%s" % (tag, alpha, tab), results, max_symbols=n, vectors=len(vectors))
        out.append((tab, vectors))
    return out


# --------------------------------------------------------------------------
# C17 - attribution is observation-only and truthful about tokens
# --------------------------------------------------------------------------

def attr_json(maps):
    out = []
    for m in maps:
        att = m.attribution
        out.append({"idx": int(m.index), "tok": m.token, "has": att is not None,
                    "att": [{"i": int(a.index), "sym": a.token} for a in (att or [])]})
    return out


def record_decoder_attr(inputs, table, compat=False):
    de.set_table(table)
    recs = []
    plain_diff = []
    try:
        for toks in inputs:
            s = "".join(toks)
            k0, v0 = de.call_decoder(s, compat, False)
            k1, v1 = de.call_decoder(s, compat, True)
            if k1 == "ok":
                smi, maps = v1
                rec = {"inp": list(toks), "kind": "ok", "out": smi, "attr": attr_json(maps)}
            else:
                smi = ""
                rec = {"inp": list(toks), "kind": k1, "out": ""}
            if (k0, v0) != (k1, smi):
                plain_diff.append((toks, (k0, v0), (k1, smi)))
            recs.append(rec)
    finally:
        de.set_table("default")
    return recs, plain_diff


def check_C17(tier):
    rep = Report("C17", tier)
    quick = tier == "quick"
    rep.notes["rule"] = ("the decoder machine carries, per atom, the creating symbol and the enclosing branch symbols "
                         "(global symbol positions ignoring [nop] and '.') and, per written atom token, its end index in "
                         "the output; every enumerated / sampled call with attribute=True is recorded with its "
                         "attribution list and TLC evaluates the clauses of the property on it; the string must equal "
                         "the attribute=False result; encoder: j-th atom symbol attributed to j-th atom token; "
                         "non-trivial = at least 2 symbols")
    n = 4 if quick else 5
    attr_alpha = {
        "frag": [".", "[C]", "[=O]", "[N]", "[Ring1]", "[Ring2]", "[Branch1]", "[=Branch1]", "[F]", "[nop]", "[P]"],
        "nest": ["[C]", "[=C]", "[N]", "[Branch1]", "[=Branch2]", "[Ring1]", "[O]", "[Branch1]", "[S]", ".", "[CH4]"],
    }
    for nm, alpha in attr_alpha.items():
        alpha = sorted(set(alpha))
        results, vectors = de.run_decoder_tlc("attr_" + nm, alpha, "default", n, emit=True, fastjit=quick)
        add_results(rep, "attr_" + nm, results, alphabet=alpha, max_symbols=n, vectors=len(vectors))
        inputs = [v["inp"] for v in vectors]
        recs, diff = record_decoder_attr(inputs, "default")
        for toks, a, b in diff:
            rep.violation("attribute=True changes the translation of %r: %r vs %r" % ("".join(toks), a, b), {"tokens": toks})
        for r_ in recs:
            rep.case((nm, tuple(r_["inp"])), nontrivial=len(r_["inp"]) >= 2)
        for r_ in recs[:: max(1, len(recs) // 2)][:2]:
            rep.sample({"input": "".join(r_["inp"]), "output": r_["out"], "attribution": r_.get("attr", [])[:4]})
        trace_validate(rep, "C17_" + nm, recs, "default")
    # attribute=True never changes the translation (nor whether it raises): all vectors of the broad alphabets,
    # under the table they were generated for, with and without compatible=True
    for tab, vectors in broad_vectors(rep, quick, "st"):
        de.set_table(TABLES[tab])
        try:
            for v in vectors:
                s_ = "".join(v["inp"])
                for compat in (False, True):
                    k0, v0 = de.call_decoder(s_, compat, False)
                    k1, v1 = de.call_decoder(s_, compat, True)
                    rep.traces += 1
                    if (k0, v0) != (k1, v1[0] if k1 == "ok" else v1):
                        rep.violation("attribute=True changes the result of decoder(%r, compatible=%s) under table %s: %r vs %r" % (
                            s_, compat, tab, (k0, v0), (k1, v1[0] if k1 == "ok" else v1)), {"tokens": v["inp"], "table": TABLES[tab]})
        finally:
            de.set_table("default")
    rng = random.Random(seed() * 17 + 1)
    for compat in (False, True):
        inputs = [gens.alive_selfies(rng, rng.randint(3, 80 if quick else 300), p_dot=0.03, p_nop=0.05)
                  for _ in range(150 if quick else 1500)]
        inputs += [gens.many_closed_rings(14), gens.many_open_rings(12) + ["."] + gens.many_closed_rings(3)]
        if compat:
            inputs = [t + ["[Branch1_2]", "[C]", "[C@@Hexpl]", ".", "[N+expl]"] for t in inputs[:60]]
        recs, diff = record_decoder_attr(inputs, "default", compat)
        for toks, a, b in diff:
            rep.violation("attribute=True changes the translation of %r" % "".join(toks)[:200], {"tokens": toks})
        for r_ in recs:
            rep.case(("long", compat, tuple(r_["inp"])), nontrivial=True)
        trace_validate(rep, "C17_long_%s" % compat, recs, "default", compat)
    # encoder side
    import checks_enc
    import gens_smiles as gs
    corp = gs.corpus(rng, 12 if quick else 200, 2)
    smis = sorted(set(s for _, s in corp))
    sf = de.selfies_mod()
    tab = checks_enc.relaxed_table()
    recs = de.record_roundtrip(smis, tab, True)
    sf.set_semantic_constraints(dict(tab))
    try:
        for r_ in recs:
            if r_["kind"] == "ok":
                try:
                    sel, maps = sf.encoder(r_["smi"], strict=True, attribute=True)
                except Exception as e:
                    rep.violation("encoder(%r, attribute=True) raised %s although attribute=False succeeded" % (
                        r_["smi"], type(e).__name__), {"smiles": r_["smi"]})
                    continue
                if sel != r_["sel"]:
                    rep.violation("attribute=True changes the encoding of %r" % r_["smi"], {"smiles": r_["smi"]})
                r_["eattr"] = attr_json(maps)
    finally:
        sf.set_semantic_constraints("default")
    results, events = de.validate_roundtrip_trace("C17_enc", recs, tab)
    for r in results:
        rep.states += r.distinct
        rep.transitions += r.generated
    rep.traces += len(recs)
    for e in events:
        if e.get("ev") == "MISMATCH" and e["prop"] == "C17":
            rec = recs[e["tid"]]
            rep.violation("encoder(%r, attribute=True): %s" % (rec["smi"], e["clause"]), {"smiles": rec["smi"], "attr": rec.get("eattr")})
    rep.configs.append({"config": "encoder attribution", "records": len(recs)})
    rep.exhaustive = True
    return rep.finish()
