"""Decoder-side checks: C01, C02 (more in this file as they are built)."""
import random

from common import MachineryError, seed
from report import Report
from alphabets import DEC, TABLES, LEGACY, IDX
import dec_engine as de
import gens

ALL_ACTIONS = ["Nop", "ReadAtom", "ReadBranch", "ReadRing", "ReadEps", "ReadInvalid", "ReadIndex",
               "PhantomIndex", "IndexDone", "SkipTok", "Pop", "FormRing", "RingsDone", "WNextRoot", "WStep",
               "wait", "done", "error"]


def tabname(t):
    return t if isinstance(t, str) else "custom"


def judge_mismatches(rep, name, mism, table, compat, classify):
    """String-level mismatches of REPLAY are not violations yet: TLC reads the implementation's
    output with the specification's SMILES reader and compares molecules (TraceDec)."""
    if not mism:
        return
    recs = [{"inp": v["inp"], "kind": k, "out": o} for v, (k, o) in mism[:3000]]
    _, events = de.validate_decoder_trace(name + "_judge", recs, table, compat)
    bad = {}
    for e in events:
        if e.get("ev") in ("MISMATCH", "CLAUSE"):
            bad.setdefault(e["tid"], e)
    for tid, e in sorted(bad.items()):
        rec = recs[tid]
        classify(rep, rec, e, table, compat)
    if len(mism) > 3000:
        rep.notes["judge_truncated"] = len(mism)


def default_classify(rep, rec, e, table, compat):
    rep.violation("decoder(%r) [table=%s compat=%s] -> %s %r; specification: %s %r; clause: %s" % (
        "".join(rec["inp"]), tabname(table), compat, rec["kind"], rec["out"], e.get("spec_kind"),
        e.get("spec_out"), e.get("clause", e.get("clauses"))),
        {"input": "".join(rec["inp"]), "tokens": rec["inp"], "table": table, "compatible": compat,
         "impl": [rec["kind"], rec["out"]], "spec": [e.get("spec_kind"), e.get("spec_out")],
         "clause": e.get("clause", e.get("clauses"))})


def gen_replay(rep, name, alphabet, table, maxlen, compat=False, fastjit=True, classify=default_classify,
               sample_filter=None):
    """GEN -> REPLAY for one configuration."""
    results, vectors = de.run_decoder_tlc(name, alphabet, table, maxlen, compat=compat, emit=True, fastjit=fastjit)
    for r in results:
        if r.violated:
            raise MachineryError("unexpected invariant violation in generation config %s: %s" % (name, r.errors[:1]))
    tot = de.TlcResult() if hasattr(de, "TlcResult") else None
    agg = results[0]
    st = sum(r.distinct for r in results)
    gen = sum(r.generated for r in results)
    rep.states += st
    rep.transitions += gen
    rep.configs.append({"config": name, "alphabet": alphabet, "table": tabname(table), "max_symbols": maxlen,
                        "compatible": compat, "distinct_states": st, "vectors": len(vectors),
                        "wall_s": round(max(r.wall for r in results), 1), "exhaustive": all(r.completed for r in results)})
    # determinism of the specification in the precise region: one terminal outcome per input
    seen = {}
    for v in vectors:
        key = tuple(v["inp"])
        if key in seen and seen[key] != (v["kind"], v["out"]):
            raise MachineryError("specification nondeterministic on %r" % (key,))
        seen[key] = (v["kind"], v["out"])
    mism = de.replay_decoder_vectors(vectors, table, compat)
    rep.traces += len(vectors)
    for v in vectors:
        rep.case((name, tuple(v["inp"])), nontrivial=len(v["inp"]) >= 2)
    for v in vectors[:: max(1, len(vectors) // 2)][:2]:
        rep.sample({"config": name, "input": "".join(v["inp"]), "expect": [v["kind"], v["out"]]})
    judge_mismatches(rep, name, mism, table, compat, classify)
    return vectors


def coverage_run(rep, alphabet, table, maxlen, need=ALL_ACTIONS):
    """Named-action specification with -coverage 1: the vacuity guard."""
    results, _ = de.run_decoder_tlc("cov", alphabet, table, maxlen, spec="Spec", coverage=True,
                                    invariants=de.C01_INVARIANTS + ["InvWriteParseId"])
    r = results[0]
    if r.violated:
        rep.violation("specification-level invariant violated: %s" % r.violated, {"errors": r.errors[:2]})
    rep.add_tlc(r, "coverage(named actions, <=%d symbols)" % maxlen)
    rep.require_coverage(need)


# --------------------------------------------------------------------------
# C02 - the decoder implements the derivation grammar exactly
# --------------------------------------------------------------------------

def check_C02(tier):
    rep = Report("C02", tier)
    rep.notes["rule"] = ("TLC enumerates every symbol string up to the length bound over each alphabet "
                         "(generation mode of DecodeCall), emits (input, expected outcome) at every terminal "
                         "state; each vector is replayed into selfies.decoder under the same table; "
                         "non-trivial = at least 2 symbols; distinct = distinct (config, input)")
    quick = tier == "quick"
    n = 4 if quick else 5
    plan = [("branch", "default", n), ("ring", "default", n), ("frag", "default", n), ("caps", "default", n),
            ("bad", "default", n), ("index", "default", 3), ("caps", "tight", n), ("ring", "wide", n),
            ("branch", "octet_rule", 3 if quick else n), ("caps", "hypervalent", 3 if quick else n)]
    for alpha, tab, ml in plan:
        gen_replay(rep, "%s_%s" % (alpha, tabname(tab)), DEC[alpha], TABLES[tab], ml, fastjit=quick)
    if not quick:
        for alpha in ("branch", "ring", "frag"):
            gen_replay(rep, "%s8_default6" % alpha, DEC[alpha][:8], "default", 6, fastjit=False)
    coverage_run(rep, DEC["frag"] + ["[epsilon]", "[Foo]"], "default", 3)
    trace_random(rep, "C02", quick)
    rep.exhaustive = True
    rep.assumptions += ["symbols are ASCII; the alphabets are listed in coverage.configs",
                        "look-alikes of [epsilon] (symbols containing 'eps') are in the permissive region: "
                        "treated as epsilon or rejected"]
    return rep.finish()


def trace_random(rep, pid, quick, tables=("default", "wide", "tight")):
    """RECORD -> TRACE: long stay-alive strings far beyond TLC's enumeration bounds."""
    rng = random.Random(seed() * 7919 + 17)
    for tab in tables:
        n_inputs = 150 if quick else 1200
        maxlen = 120 if quick else 400
        inputs = [gens.long_selfies(rng, rng.randint(5, maxlen)) for _ in range(n_inputs // 2)]
        inputs += [gens.alive_selfies(rng, rng.randint(5, maxlen)) for _ in range(n_inputs // 2)]
        if tab == "default":
            inputs += [gens.many_closed_rings(120), gens.alive_selfies(rng, 600 if quick else 2000)]
            inputs += gens.uniform_strings(rng, DEC["ring"] + DEC["branch"] + DEC["bad"], 200 if quick else 2000, 30)
        recs = de.record_decoder(inputs, TABLES[tab])
        results, events = de.validate_decoder_trace("%s_%s" % (pid, tab), recs, TABLES[tab])
        for r in results:
            rep.states += r.distinct
            rep.transitions += r.generated
        rep.traces += len(recs)
        rep.configs.append({"config": "trace_%s" % tab, "calls": len(recs),
                            "symbols": sum(len(r["inp"]) for r in recs),
                            "machine_steps": sum(r.generated for r in results)})
        for rec in recs[:1]:
            rep.sample({"config": "trace_%s" % tab, "input": "".join(rec["inp"])[:200], "impl": [rec["kind"], rec["out"][:120]]})
        for rec in recs:
            rep.case(("trace", tab, tuple(rec["inp"])), nontrivial=len(rec["inp"]) >= 2)
        bad = {}
        for e in events:
            if e.get("ev") in ("MISMATCH", "CLAUSE"):
                bad.setdefault(e["tid"], e)
        for tid, e in sorted(bad.items()):
            default_classify(rep, recs[tid], e, TABLES[tab], False)


# --------------------------------------------------------------------------
# C01 - every SELFIES string decodes to a well-formed, valence-valid SMILES
# --------------------------------------------------------------------------

def check_C01(tier):
    rep = Report("C01", tier)
    quick = tier == "quick"
    rep.notes["rule"] = ("MC: all symbol strings up to the bound (VIEW hides the consumed input), C01 clauses as "
                         "invariants in every state incl. write.parse=id at terminal states; GEN->REPLAY and "
                         "RECORD->TRACE bind the implementation's output to the specification's molecule; "
                         "non-trivial = at least 2 symbols")
    n = 5 if quick else 6
    invs = de.C01_INVARIANTS + ["InvWriteParseId", "InvEmptyOut"]
    for alpha, tab, nn in [("ring", "default", n), ("branch", "default", n - 1), ("frag", "default", n),
                           ("caps", "tight", n), ("ring", "wide", n - 1), ("caps", "default", n - 1)]:
        if not quick:
            nn = n
        results, _ = de.run_decoder_tlc("mc_%s_%s" % (alpha, tab), DEC[alpha], TABLES[tab], nn, invariants=invs,
                                        view=True, fastjit=quick)
        for r in results:
            if r.violated:
                rep.violation("specification-level: invariant %s violated (alphabet %s, table %s)" % (r.violated, alpha, tab),
                              {"errors": r.errors[:2]})
        rep.states += sum(r.distinct for r in results)
        rep.transitions += sum(r.generated for r in results)
        rep.configs.append({"config": "mc_%s_%s" % (alpha, tab), "max_symbols": nn, "view": True,
                            "distinct_states": sum(r.distinct for r in results),
                            "exhaustive": all(r.completed for r in results)})
    # scaled ring-label constant: label exhaustion explored exhaustively at model scale
    results, _ = de.run_decoder_tlc("mc_labels", ["[C]", "[=C]", "[Ring1]", "[Ring2]", "[Branch1]", "[N]"], "default",
                                    7 if quick else 8, maxlabel=2,
                                    invariants=["InvLabelsLegal", "InvLabelsPaired", "InvRingsClosed"], view=True, fastjit=quick)
    for r in results:
        if r.violated:
            rep.violation("specification-level: %s violated with MaxLabel=2" % r.violated, {"errors": r.errors[:2]})
    rep.states += sum(r.distinct for r in results)
    rep.transitions += sum(r.generated for r in results)
    rep.configs.append({"config": "mc_labels(MaxLabel=2)", "distinct_states": sum(r.distinct for r in results)})
    # binding
    m = 4 if quick else 5
    for alpha, tab in [("ring", "default"), ("frag", "default"), ("caps", "tight"), ("branch", "wide")]:
        gen_replay(rep, "%s_%s" % (alpha, tab), DEC[alpha], TABLES[tab], m, fastjit=quick, classify=classify_C01)
    coverage_run(rep, DEC["frag"] + ["[epsilon]", "[Foo]"], "default", 3)
    trace_C01(rep, quick)
    sanitizer_clause(rep, quick)
    rep.exhaustive = True
    rep.assumptions += ["the clause about an independent sanitizer is judged by RDKit (MolFromSmiles with "
                        "sanitization), outside the specification",
                        "beyond the enumeration bounds the claim rests on validated traces (sampling)"]
    return rep.finish()


def classify_C01(rep, rec, e, table, compat):
    default_classify(rep, rec, e, table, compat)


def trace_C01(rep, quick):
    rng = random.Random(seed() * 104729 + 5)
    for tab in ("default", "wide", "tight", "hypervalent"):
        n_inputs = 120 if quick else 1000
        maxlen = 150 if quick else 500
        inputs = [gens.long_selfies(rng, rng.randint(5, maxlen), p_ring=0.2) for _ in range(n_inputs // 3)]
        inputs += [gens.alive_selfies(rng, rng.randint(5, maxlen), p_ring=0.25) for _ in range(2 * n_inputs // 3)]
        if tab in ("default", "wide"):
            inputs += [gens.many_closed_rings(130), gens.many_open_rings(60),
                       gens.alive_selfies(rng, 700 if quick else 2000, p_ring=0.2)]
        if tab == "wide":
            inputs += [gens.many_open_rings(105)]
        recs = de.record_decoder(inputs, TABLES[tab])
        results, events = de.validate_decoder_trace("C01_%s" % tab, recs, TABLES[tab])
        for r in results:
            rep.states += r.distinct
            rep.transitions += r.generated
        rep.traces += len(recs)
        rep.configs.append({"config": "trace_%s" % tab, "calls": len(recs),
                            "symbols": sum(len(r["inp"]) for r in recs),
                            "max_symbols": max(len(r["inp"]) for r in recs),
                            "machine_steps": sum(r.generated for r in results)})
        for rec in recs:
            rep.case(("trace", tab, tuple(rec["inp"])), nontrivial=len(rec["inp"]) >= 2)
        overflow = set(e["tid"] for e in events if e.get("ev") == "OVERFLOW")
        bad = {}
        for e in events:
            if e.get("ev") in ("MISMATCH", "CLAUSE"):
                bad.setdefault(e["tid"], e)
        for tid, e in sorted(bad.items()):
            if tid in overflow and e.get("ev") == "CLAUSE" and set(e.get("clauses", [])) <= {"LabelsLegal"}:
                continue
            classify_C01(rep, recs[tid], e, TABLES[tab], False)
        for tid in sorted(overflow):
            # more rings simultaneously open than there are legal labels: no legal SMILES exists
            hit = [f for f in rep.findings if f.get("signature") == "decoder:more-than-99-simultaneously-open-rings"]
            if hit:
                rep.known(hit[0]["id"], hit[0]["what"])
            else:
                rep.violation("decoder output needs a ring label above 99 (%d symbols)" % len(recs[tid]["inp"]),
                              {"tokens": recs[tid]["inp"], "table": TABLES[tab]})


def sanitizer_clause(rep, quick):
    """Last sentence of C01: default table, robust alphabet, RDKit sanitization as independent judge."""
    try:
        from rdkit import Chem, RDLogger
        RDLogger.DisableLog("rdApp.*")
    except Exception:
        rep.notes["sanitizer"] = "RDKit not importable: clause not judged"
        return
    sf = de.selfies_mod()
    sf.set_semantic_constraints("default")
    alpha = sorted(sf.get_semantic_robust_alphabet())
    rng = random.Random(seed() + 99)
    n = 3000 if quick else 30000
    bad = 0
    for _ in range(n):
        toks = [rng.choice(alpha) for _ in range(rng.randint(1, 40))]
        kind, out = de.call_decoder("".join(toks))
        if kind != "ok":
            rep.violation("robust-alphabet string rejected: %s" % kind, {"tokens": toks})
            continue
        if out and Chem.MolFromSmiles(out) is None:
            bad += 1
            rep.violation("RDKit rejects decoder output %r" % out, {"tokens": toks, "output": out})
    rep.notes["sanitizer_inputs"] = n
    rep.traces += n


# --------------------------------------------------------------------------
# helpers shared by the remaining decoder-side checks
# --------------------------------------------------------------------------

def add_results(rep, name, results, **info):
    st = sum(r.distinct for r in results)
    rep.states += st
    rep.transitions += sum(r.generated for r in results)
    c = {"config": name, "distinct_states": st, "exhaustive": all(r.completed for r in results)}
    c.update(info)
    rep.configs.append(c)
    for r in results:
        if r.violated:
            rep.violation("specification-level: %s violated in %s" % (r.violated, name), {"errors": r.errors[:2]})


def const_checks(rep, impl=True):
    r, failed = de.run_const_checks()
    rep.add_tlc(r, "ConstChecks (ASSUMEs)")
    if failed:
        raise MachineryError("constant-level obligation of the specification is false: %s" % failed)
    bad = []
    if impl:
        txt, names = de.impl_tables_module()
        r, failed = de.run_const_checks(txt, "ImplTables")
        rep.add_tlc(r, "ImplTables (tables of the working tree = tables of the specification)")
        rep.notes["impl_tables_compared"] = names
        bad = failed
    return bad


def trace_validate(rep, name, recs, table, compat=False, classify=default_classify):
    results, events = de.validate_decoder_trace(name, recs, table, compat)
    for r in results:
        rep.states += r.distinct
        rep.transitions += r.generated
    rep.traces += len(recs)
    rep.configs.append({"config": "trace_" + name, "calls": len(recs), "symbols": sum(len(r["inp"]) for r in recs),
                        "max_symbols": max([len(r["inp"]) for r in recs] or [0]),
                        "machine_steps": sum(r.generated for r in results)})
    bad = {}
    for e in events:
        if e.get("ev") in ("MISMATCH", "CLAUSE"):
            bad.setdefault(e["tid"], e)
    for tid, e in sorted(bad.items()):
        classify(rep, recs[tid], e, table, compat)
    return events


# --------------------------------------------------------------------------
# C13 - [nop] padding is invisible
# --------------------------------------------------------------------------

NOP_ALPHA = ["[nop]", "[C]", "[=C]", "[O]", "[Branch1]", "[=Branch2]", "[Ring1]", "[Ring2]", ".", "[=Ring1]"]


def check_C13(tier):
    rep = Report("C13", tier)
    quick = tier == "quick"
    rep.notes["rule"] = ("all strings up to the bound over an alphabet with [nop]; at every terminal state the "
                         "specification compares with its own run on the [nop]-free string (NopInvisible); each "
                         "vector is replayed twice into selfies.decoder (with and without its [nop]s); "
                         "non-trivial = contains [nop] and at least one other symbol")
    n = 5 if quick else 6
    results, vectors = de.run_decoder_tlc("nop", NOP_ALPHA, "default", n, emit=True, invariants=["NopInvisible"],
                                          fastjit=quick)
    add_results(rep, "nop_default", results, alphabet=NOP_ALPHA, max_symbols=n, vectors=len(vectors))
    vs = [v for v in vectors if "[nop]" in v["inp"]]
    mism = de.replay_decoder_vectors(vs, "default")
    stripped = [dict(v, inp=[t for t in v["inp"] if t != "[nop]"]) for v in vs]
    mism += de.replay_decoder_vectors(stripped, "default")
    rep.traces += 2 * len(vs)
    for v in vs:
        rep.case(tuple(v["inp"]), nontrivial=len(set(v["inp"])) > 1)
    for v in vs[:: max(1, len(vs) // 2)][:2]:
        rep.sample({"input": "".join(v["inp"]), "expect": [v["kind"], v["out"]]})
    judge_mismatches(rep, "nop", mism, "default", False, default_classify)
    # long strings with random [nop] insertion + padding through the encoding utilities
    rng = random.Random(seed() * 31 + 13)
    sf = de.selfies_mod()
    pairs = []
    for _ in range(150 if quick else 1500):
        base = [t for t in gens.alive_selfies(rng, rng.randint(3, 80 if quick else 300)) if t != "[nop]"]
        padded = list(base)
        for _ in range(rng.randint(1, 8)):
            padded.insert(rng.randint(0, len(padded)), "[nop]")
        pairs.append((base, padded))
    for tab in ("default", "wide"):
        recs_b = de.record_decoder([b for b, _ in pairs], TABLES[tab])
        recs_p = de.record_decoder([p for _, p in pairs], TABLES[tab])
        for rb, rp in zip(recs_b, recs_p):
            if (rb["kind"], rb["out"]) != (rp["kind"], rp["out"]):
                rep.violation("[nop] changes the result: %r -> %s %r but without [nop] %s %r" % (
                    "".join(rp["inp"]), rp["kind"], rp["out"], rb["kind"], rb["out"]),
                    {"padded": rp["inp"], "base": rb["inp"], "table": TABLES[tab]})
        trace_validate(rep, "C13_%s" % tab, recs_p, TABLES[tab])
    # selfies_to_encoding(pad_to_len) -> encoding_to_selfies -> decoder
    npad = 0
    for base, _ in pairs[: (60 if quick else 400)]:
        s = "".join(base)
        symbols = sorted(set(base) | {"[nop]", "."})
        stoi = {x: i for i, x in enumerate(symbols)}
        itos = {i: x for x, i in stoi.items()}
        try:
            lab = sf.selfies_to_encoding(s, stoi, pad_to_len=len(base) + rng.randint(0, 6), enc_type="label")
            back = sf.encoding_to_selfies(lab, itos, enc_type="label")
        except Exception as e:
            rep.violation("padding utilities raised %s on %r" % (type(e).__name__, s), {"input": s})
            continue
        a, b = de.call_decoder(s), de.call_decoder(back)
        npad += 1
        if a != b:
            rep.violation("padded string decodes differently: %r vs %r" % (a, b), {"input": s, "padded": back})
    rep.traces += npad
    rep.notes["padding_round_trips"] = npad
    rep.exhaustive = True
    return rep.finish()


# --------------------------------------------------------------------------
# C18 - compatible=True is a conservative extension
# --------------------------------------------------------------------------

def check_C18(tier):
    rep = Report("C18", tier)
    quick = tier == "quick"
    rep.notes["rule"] = ("all strings up to the bound over an alphabet mixing modern and pre-v2 symbols, with the "
                         "flag on and off; CompatIsModern at terminal states; ConstChecks: Modernize fixes every "
                         "modern symbol and maps the legacy table as documented; non-trivial = contains a legacy symbol")
    bad = const_checks(rep, impl=False)
    n = 4 if quick else 5
    for compat in (True, False):
        results, vectors = de.run_decoder_tlc("legacy_%s" % compat, LEGACY, "default", n, compat=compat, emit=True,
                                              invariants=["CompatIsModern"], fastjit=quick)
        add_results(rep, "legacy_compat=%s" % compat, results, alphabet=LEGACY, max_symbols=n, vectors=len(vectors))
        mism = de.replay_decoder_vectors(vectors, "default", compat)
        rep.traces += len(vectors)
        for v in vectors:
            rep.case((compat, tuple(v["inp"])), nontrivial=any("xpl" in t or "_" in t for t in v["inp"]))
        for v in vectors[:: max(1, len(vectors) // 2)][:2]:
            rep.sample({"compatible": compat, "input": "".join(v["inp"]), "expect": [v["kind"], v["out"]]})
        judge_mismatches(rep, "legacy_%s" % compat, mism, "default", compat, default_classify)
    # modern-only strings: flag on = flag off (long random strings)
    rng = random.Random(seed() + 1818)
    inputs = [gens.alive_selfies(rng, rng.randint(3, 120)) for _ in range(200 if quick else 2000)]
    r_off = de.record_decoder(inputs, "default", False)
    r_on = de.record_decoder(inputs, "default", True)
    for a, b in zip(r_off, r_on):
        if (a["kind"], a["out"]) != (b["kind"], b["out"]):
            rep.violation("compatible=True changes a string without legacy symbols: %r" % "".join(a["inp"]),
                          {"tokens": a["inp"], "off": [a["kind"], a["out"]], "on": [b["kind"], b["out"]]})
    trace_validate(rep, "C18_modern_on", r_on, "default", True)
    # random mixes of legacy and modern symbols, flag on
    mixes = []
    for _ in range(200 if quick else 2000):
        t = gens.alive_selfies(rng, rng.randint(3, 60))
        for _ in range(rng.randint(1, 5)):
            t.insert(rng.randint(0, len(t)), rng.choice(LEGACY[2:13]))
        mixes.append(t)
    trace_validate(rep, "C18_mix_on", de.record_decoder(mixes, "default", True), "default", True)
    trace_validate(rep, "C18_mix_off", de.record_decoder(mixes, "default", False), "default", False)
    rep.exhaustive = True
    return rep.finish()


# --------------------------------------------------------------------------
# C16 - index symbols: base-16 positional code
# --------------------------------------------------------------------------

def check_C16(tier):
    rep = Report("C16", tier)
    quick = tier == "quick"
    rep.notes["rule"] = ("constant level: all n < 16^3 and all symbol triples (ConstChecks); binding through the public "
                         "API: decoder on chains with every index-symbol tuple after ring / branch symbols, encoder on "
                         "macrocycles and long branches for every n; non-trivial = index value > 0")
    bad = const_checks(rep, impl=True)
    for f in bad:
        if "ImplIndex" in f or "A0" in f:
            rep.violation("the working tree's INDEX_ALPHABET differs from the documented order", {"assumption": f})
    digits = IDX + ["[F]", "[=Ring1]"]
    inputs = []
    rng = random.Random(seed() + 16)
    # one index symbol, and a missing symbol at the end of the string
    for a in digits:
        inputs.append(["[C]"] * 20 + ["[Ring1]", a, "[C]"])
        inputs.append(["[C]"] * 3 + ["[Branch1]", a] + ["[C]"] * 18)
        inputs.append(["[C]"] * 20 + ["[Ring2]", a])
        inputs.append(["[C]"] * 20 + ["[Ring3]", a])
    # two index symbols: every pair (thorough) / a sample of pairs covering every digit in both places (quick)
    pairs = [(a, b) for a in digits for b in digits]
    if quick:
        pairs = [(a, digits[(i * 7 + 3) % len(digits)]) for i, a in enumerate(digits)] + \
                [(digits[(i * 5 + 1) % len(digits)], b) for i, b in enumerate(digits)] + rng.sample(pairs, 20)
    for a, b in pairs:
        q = 16 * (IDX.index(a) if a in IDX else 0) + (IDX.index(b) if b in IDX else 0)
        inputs.append(["[C]"] * (q + 4) + ["[Ring2]", a, b, "[C]"])
        if not quick or rng.random() < 0.3:
            inputs.append(["[C]"] * 3 + ["[Branch2]", a, b] + ["[C]"] * (q + 3) + ["[O]"])
    # three index symbols
    tri = [(a, b, c) for a in digits[:3] + ["[F]"] for b in digits for c in digits]
    tri = rng.sample(tri, 24 if quick else 400)
    if not quick:
        tri += [(a, b, c) for a in digits[3:6] for b in digits[::5] for c in digits[::7]]
    for a, b, c in tri:
        q = 256 * (IDX.index(a) if a in IDX else 0) + 16 * (IDX.index(b) if b in IDX else 0) + \
            (IDX.index(c) if c in IDX else 0)
        inputs.append(["[C]"] * (q + 4) + ["[Ring3]", a, b, c, "[C]"])
    recs = de.record_decoder(inputs, "default")
    for rec in recs:
        rep.case(tuple(rec["inp"][-5:]) + (len(rec["inp"]),), nontrivial=True)
    rep.sample({"input": "[C]*300 + [Ring2][=N][S][C]", "meaning": "ring closes 16*11+14+1 atoms back"})
    trace_validate(rep, "C16_decoder", recs, "default")
    try:
        import checks_enc
        checks_enc.index_encoder_side(rep, quick)
    except ImportError:
        rep.notes["encoder_side"] = "not built yet"
    rep.exhaustive = True
    return rep.finish()
