"""Decoder-side checks: C01, C02 (more in this file as they are built)."""
import random

from common import MachineryError, seed
from report import Report
from alphabets import DEC, TABLES, LEGACY, IDX
import dec_engine as de
import gens

ALL_ACTIONS = ["Nop", "ReadAtom", "ReadBranch", "ReadRing", "ReadEps", "ReadInvalid", "ReadIndex",
               "PhantomIndex", "IndexDone", "SkipTok", "Pop", "FormRing", "RingsDone", "WNextRoot", "WStep",
               "wait", "done", "error"]


def tabname(t):
    return t if isinstance(t, str) else "custom"


def judge_mismatches(rep, name, mism, table, compat, classify):
    """String-level mismatches of REPLAY are not violations yet: TLC reads the implementation's
    output with the specification's SMILES reader and compares molecules (TraceDec)."""
    if not mism:
        return
    recs = [{"inp": v["inp"], "kind": k, "out": o} for v, (k, o) in mism[:3000]]
    _, events = de.validate_decoder_trace(name + "_judge", recs, table, compat)
    bad = {}
    for e in events:
        if e.get("ev") in ("MISMATCH", "CLAUSE"):
            bad.setdefault(e["tid"], e)
    for tid, e in sorted(bad.items()):
        rec = recs[tid]
        classify(rep, rec, e, table, compat)
    if len(mism) > 3000:
        rep.notes["judge_truncated"] = len(mism)


def default_classify(rep, rec, e, table, compat):
    rep.violation("decoder(%r) [table=%s compat=%s] -> %s %r; specification: %s %r; clause: %s" % (
        "".join(rec["inp"]), tabname(table), compat, rec["kind"], rec["out"], e.get("spec_kind"),
        e.get("spec_out"), e.get("clause", e.get("clauses"))),
        {"input": "".join(rec["inp"]), "tokens": rec["inp"], "table": table, "compatible": compat,
         "impl": [rec["kind"], rec["out"]], "spec": [e.get("spec_kind"), e.get("spec_out")],
         "clause": e.get("clause", e.get("clauses"))})


def gen_replay(rep, name, alphabet, table, maxlen, compat=False, fastjit=True, classify=default_classify,
               sample_filter=None):
    """GEN -> REPLAY for one configuration."""
    results, vectors = de.run_decoder_tlc(name, alphabet, table, maxlen, compat=compat, emit=True, fastjit=fastjit)
    for r in results:
        if r.violated:
            raise MachineryError("unexpected invariant violation in generation config %s: %s" % (name, r.errors[:1]))
    tot = de.TlcResult() if hasattr(de, "TlcResult") else None
    agg = results[0]
    st = sum(r.distinct for r in results)
    gen = sum(r.generated for r in results)
    rep.states += st
    rep.transitions += gen
    rep.configs.append({"config": name, "alphabet": alphabet, "table": tabname(table), "max_symbols": maxlen,
                        "compatible": compat, "distinct_states": st, "vectors": len(vectors),
                        "wall_s": round(max(r.wall for r in results), 1), "exhaustive": all(r.completed for r in results)})
    # determinism of the specification in the precise region: one terminal outcome per input
    seen = {}
    for v in vectors:
        key = tuple(v["inp"])
        if key in seen and seen[key] != (v["kind"], v["out"]):
            raise MachineryError("specification nondeterministic on %r" % (key,))
        seen[key] = (v["kind"], v["out"])
    mism = de.replay_decoder_vectors(vectors, table, compat)
    rep.traces += len(vectors)
    for v in vectors:
        rep.case((name, tuple(v["inp"])), nontrivial=len(v["inp"]) >= 2)
    for v in vectors[:: max(1, len(vectors) // 2)][:2]:
        rep.sample({"config": name, "input": "".join(v["inp"]), "expect": [v["kind"], v["out"]]})
    judge_mismatches(rep, name, mism, table, compat, classify)
    return vectors


def coverage_run(rep, alphabet, table, maxlen, need=ALL_ACTIONS):
    """Named-action specification with -coverage 1: the vacuity guard."""
    results, _ = de.run_decoder_tlc("cov", alphabet, table, maxlen, spec="Spec", coverage=True,
                                    invariants=de.C01_INVARIANTS + ["InvWriteParseId"])
    r = results[0]
    if r.violated:
        rep.violation("specification-level invariant violated: %s" % r.violated, {"errors": r.errors[:2]})
    rep.add_tlc(r, "coverage(named actions, <=%d symbols)" % maxlen)
    rep.require_coverage(need)


# --------------------------------------------------------------------------
# C02 - the decoder implements the derivation grammar exactly
# --------------------------------------------------------------------------

def check_C02(tier):
    rep = Report("C02", tier)
    rep.notes["rule"] = ("TLC enumerates every symbol string up to the length bound over each alphabet "
                         "(generation mode of DecodeCall), emits (input, expected outcome) at every terminal "
                         "state; each vector is replayed into selfies.decoder under the same table; "
                         "non-trivial = at least 2 symbols; distinct = distinct (config, input)")
    quick = tier == "quick"
    n = 4 if quick else 5
    plan = [("branch", "default", n), ("ring", "default", n), ("frag", "default", n), ("caps", "default", n),
            ("bad", "default", n), ("index", "default", 3), ("caps", "tight", n), ("ring", "wide", n),
            ("branch", "octet_rule", 3 if quick else n), ("caps", "hypervalent", 3 if quick else n)]
    for alpha, tab, ml in plan:
        gen_replay(rep, "%s_%s" % (alpha, tabname(tab)), DEC[alpha], TABLES[tab], ml, fastjit=quick)
    if not quick:
        for alpha in ("branch", "ring", "frag"):
            gen_replay(rep, "%s8_default6" % alpha, DEC[alpha][:8], "default", 6, fastjit=False)
    coverage_run(rep, DEC["frag"] + ["[epsilon]", "[Foo]"], "default", 3)
    trace_random(rep, "C02", quick)
    rep.exhaustive = True
    rep.assumptions += ["symbols are ASCII; the alphabets are listed in coverage.configs",
                        "look-alikes of [epsilon] (symbols containing 'eps') are in the permissive region: "
                        "treated as epsilon or rejected"]
    return rep.finish()


def trace_random(rep, pid, quick, tables=("default", "wide", "tight")):
    """RECORD -> TRACE: long stay-alive strings far beyond TLC's enumeration bounds."""
    rng = random.Random(seed() * 7919 + 17)
    for tab in tables:
        n_inputs = 150 if quick else 1200
        maxlen = 120 if quick else 400
        inputs = [gens.long_selfies(rng, rng.randint(5, maxlen)) for _ in range(n_inputs // 2)]
        inputs += [gens.alive_selfies(rng, rng.randint(5, maxlen)) for _ in range(n_inputs // 2)]
        if tab == "default":
            inputs += [gens.many_closed_rings(120), gens.alive_selfies(rng, 600 if quick else 2000)]
            inputs += gens.uniform_strings(rng, DEC["ring"] + DEC["branch"] + DEC["bad"], 200 if quick else 2000, 30)
        recs = de.record_decoder(inputs, TABLES[tab])
        results, events = de.validate_decoder_trace("%s_%s" % (pid, tab), recs, TABLES[tab])
        for r in results:
            rep.states += r.distinct
            rep.transitions += r.generated
        rep.traces += len(recs)
        rep.configs.append({"config": "trace_%s" % tab, "calls": len(recs),
                            "symbols": sum(len(r["inp"]) for r in recs),
                            "machine_steps": sum(r.generated for r in results)})
        for rec in recs[:1]:
            rep.sample({"config": "trace_%s" % tab, "input": "".join(rec["inp"])[:200], "impl": [rec["kind"], rec["out"][:120]]})
        for rec in recs:
            rep.case(("trace", tab, tuple(rec["inp"])), nontrivial=len(rec["inp"]) >= 2)
        bad = {}
        for e in events:
            if e.get("ev") in ("MISMATCH", "CLAUSE"):
                bad.setdefault(e["tid"], e)
        for tid, e in sorted(bad.items()):
            default_classify(rep, recs[tid], e, TABLES[tab], False)


# --------------------------------------------------------------------------
# C01 - every SELFIES string decodes to a well-formed, valence-valid SMILES
# --------------------------------------------------------------------------

def check_C01(tier):
    rep = Report("C01", tier)
    quick = tier == "quick"
    rep.notes["rule"] = ("MC: all symbol strings up to the bound (VIEW hides the consumed input), C01 clauses as "
                         "invariants in every state incl. write.parse=id at terminal states; GEN->REPLAY and "
                         "RECORD->TRACE bind the implementation's output to the specification's molecule; "
                         "non-trivial = at least 2 symbols")
    n = 5 if quick else 6
    invs = de.C01_INVARIANTS + ["InvWriteParseId", "InvEmptyOut"]
    for alpha, tab, nn in [("ring", "default", n), ("branch", "default", n - 1), ("frag", "default", n),
                           ("caps", "tight", n), ("ring", "wide", n - 1), ("caps", "default", n - 1)]:
        if not quick:
            nn = n
        results, _ = de.run_decoder_tlc("mc_%s_%s" % (alpha, tab), DEC[alpha], TABLES[tab], nn, invariants=invs,
                                        view=True, fastjit=quick)
        for r in results:
            if r.violated:
                rep.violation("specification-level: invariant %s violated (alphabet %s, table %s)" % (r.violated, alpha, tab),
                              {"errors": r.errors[:2]})
        rep.states += sum(r.distinct for r in results)
        rep.transitions += sum(r.generated for r in results)
        rep.configs.append({"config": "mc_%s_%s" % (alpha, tab), "max_symbols": nn, "view": True,
                            "distinct_states": sum(r.distinct for r in results),
                            "exhaustive": all(r.completed for r in results)})
    # scaled ring-label constant: label exhaustion explored exhaustively at model scale
    results, _ = de.run_decoder_tlc("mc_labels", ["[C]", "[=C]", "[Ring1]", "[Ring2]", "[Branch1]", "[N]"], "default",
                                    7 if quick else 8, maxlabel=2,
                                    invariants=["InvLabelsLegal", "InvLabelsPaired", "InvRingsClosed"], view=True, fastjit=quick)
    for r in results:
        if r.violated:
            rep.violation("specification-level: %s violated with MaxLabel=2" % r.violated, {"errors": r.errors[:2]})
    rep.states += sum(r.distinct for r in results)
    rep.transitions += sum(r.generated for r in results)
    rep.configs.append({"config": "mc_labels(MaxLabel=2)", "distinct_states": sum(r.distinct for r in results)})
    # binding
    m = 4 if quick else 5
    for alpha, tab in [("ring", "default"), ("frag", "default"), ("caps", "tight"), ("branch", "wide")]:
        gen_replay(rep, "%s_%s" % (alpha, tab), DEC[alpha], TABLES[tab], m, fastjit=quick, classify=classify_C01)
    coverage_run(rep, DEC["frag"] + ["[epsilon]", "[Foo]"], "default", 3)
    trace_C01(rep, quick)
    sanitizer_clause(rep, quick)
    rep.exhaustive = True
    rep.assumptions += ["the clause about an independent sanitizer is judged by RDKit (MolFromSmiles with "
                        "sanitization), outside the specification",
                        "beyond the enumeration bounds the claim rests on validated traces (sampling)"]
    return rep.finish()


def classify_C01(rep, rec, e, table, compat):
    default_classify(rep, rec, e, table, compat)


def trace_C01(rep, quick):
    rng = random.Random(seed() * 104729 + 5)
    for tab in ("default", "wide", "tight", "hypervalent"):
        n_inputs = 120 if quick else 1000
        maxlen = 150 if quick else 500
        inputs = [gens.long_selfies(rng, rng.randint(5, maxlen), p_ring=0.2) for _ in range(n_inputs // 3)]
        inputs += [gens.alive_selfies(rng, rng.randint(5, maxlen), p_ring=0.25) for _ in range(2 * n_inputs // 3)]
        if tab in ("default", "wide"):
            inputs += [gens.many_closed_rings(130), gens.many_open_rings(60),
                       gens.alive_selfies(rng, 700 if quick else 2000, p_ring=0.2)]
        if tab == "wide":
            inputs += [gens.many_open_rings(105)]
        recs = de.record_decoder(inputs, TABLES[tab])
        results, events = de.validate_decoder_trace("C01_%s" % tab, recs, TABLES[tab])
        for r in results:
            rep.states += r.distinct
            rep.transitions += r.generated
        rep.traces += len(recs)
        rep.configs.append({"config": "trace_%s" % tab, "calls": len(recs),
                            "symbols": sum(len(r["inp"]) for r in recs),
                            "max_symbols": max(len(r["inp"]) for r in recs),
                            "machine_steps": sum(r.generated for r in results)})
        for rec in recs:
            rep.case(("trace", tab, tuple(rec["inp"])), nontrivial=len(rec["inp"]) >= 2)
        overflow = set(e["tid"] for e in events if e.get("ev") == "OVERFLOW")
        bad = {}
        for e in events:
            if e.get("ev") in ("MISMATCH", "CLAUSE"):
                bad.setdefault(e["tid"], e)
        for tid, e in sorted(bad.items()):
            if tid in overflow and e.get("ev") == "CLAUSE" and set(e.get("clauses", [])) <= {"LabelsLegal"}:
                continue
            classify_C01(rep, recs[tid], e, TABLES[tab], False)
        for tid in sorted(overflow):
            # more rings simultaneously open than there are legal labels: no legal SMILES exists
            hit = [f for f in rep.findings if f.get("signature") == "decoder:more-than-99-simultaneously-open-rings"]
            if hit:
                rep.known(hit[0]["id"], hit[0]["what"])
            else:
                rep.violation("decoder output needs a ring label above 99 (%d symbols)" % len(recs[tid]["inp"]),
                              {"tokens": recs[tid]["inp"], "table": TABLES[tab]})


def sanitizer_clause(rep, quick):
    """Last sentence of C01: default table, robust alphabet, RDKit sanitization as independent judge."""
    try:
        from rdkit import Chem, RDLogger
        RDLogger.DisableLog("rdApp.*")
    except Exception:
        rep.notes["sanitizer"] = "RDKit not importable: clause not judged"
        return
    sf = de.selfies_mod()
    sf.set_semantic_constraints("default")
    alpha = sorted(sf.get_semantic_robust_alphabet())
    rng = random.Random(seed() + 99)
    n = 3000 if quick else 30000
    bad = 0
    for _ in range(n):
        toks = [rng.choice(alpha) for _ in range(rng.randint(1, 40))]
        kind, out = de.call_decoder("".join(toks))
        if kind != "ok":
            rep.violation("robust-alphabet string rejected: %s" % kind, {"tokens": toks})
            continue
        if out and Chem.MolFromSmiles(out) is None:
            bad += 1
            rep.violation("RDKit rejects decoder output %r" % out, {"tokens": toks, "output": out})
    rep.notes["sanitizer_inputs"] = n
    rep.traces += n
