"""Per-check report: accumulates coverage, violations, known findings; writes evidence."""
import json
import os
import sys
import time

from common import write_evidence, save_replay, load_known_findings, MachineryError


class Report:
    def __init__(self, pid, tier):
        self.pid = pid
        self.tier = tier
        self.t0 = time.time()
        self.states = 0
        self.transitions = 0
        self.traces = 0            # vectors replayed into / trace events validated against the impl
        self.evaluations = 0
        self.distinct = set()      # hashes of distinct non-trivial cases (bounded)
        self.distinct_n = 0
        self.samples = []
        self.violations = []       # (description, replay_obj)
        self.known_hits = {}       # finding id -> count
        self.notes = {}
        self.assumptions = []
        self.exhaustive = None
        self.configs = []
        self.coverage_actions = {}
        self.findings = [f for f in load_known_findings() if f.get("property") == pid]

    # -- accumulation -------------------------------------------------------
    def add_tlc(self, res, name=None):
        self.states += res.distinct
        self.transitions += res.generated
        for a, (dist, gen) in res.coverage.items():
            old = self.coverage_actions.get(a, 0)
            self.coverage_actions[a] = old + gen
        if name:
            self.configs.append({"config": name, "distinct_states": res.distinct,
                                 "states_generated": res.generated, "depth": res.depth,
                                 "completed": res.completed, "wall_s": round(res.wall, 1)})

    def sample(self, obj, limit=6):
        if len(self.samples) < limit:
            self.samples.append(obj)

    def case(self, key, nontrivial=True):
        self.evaluations += 1
        if nontrivial:
            if len(self.distinct) < 2000000:
                h = hash(key)
                if h not in self.distinct:
                    self.distinct.add(h)
                    self.distinct_n += 1
            else:
                pass

    def violation(self, desc, obj):
        """Record a violation unless it matches a listed known finding."""
        self.violations.append((desc, obj))

    def known(self, fid, what):
        if fid not in self.known_hits:
            self.known_hits[fid] = [0, what]
        self.known_hits[fid][0] += 1

    def require_coverage(self, actions):
        missing = [a for a in actions if self.coverage_actions.get(a, 0) == 0]
        if missing:
            raise MachineryError("vacuity guard: actions never taken: %s" % missing)

    # -- finish ---------------------------------------------------------------
    def finish(self, level="model_checking", extra=None):
        wall = time.time() - self.t0
        cov = {
            "states": max(self.states, 0),
            "transitions": max(self.transitions, 0),
            "traces_validated_against_impl": self.traces,
            "evaluations": max(self.evaluations, self.traces),
            "distinct_nontrivial": self.distinct_n,
            "rule": self.notes.get("rule", ""),
            "samples": self.samples if self.samples else ["(none)"],
            "configs": self.configs,
            "action_coverage": self.coverage_actions,
            "known_findings_hit": {k: v[0] for k, v in self.known_hits.items()},
        }
        if self.exhaustive is not None:
            cov["exhaustive"] = self.exhaustive
        for k, v in self.notes.items():
            if k != "rule":
                cov[k] = v
        if extra:
            cov.update(extra)
        write_evidence(self.pid, self.tier, level, cov, wall, len(self.violations), self.assumptions)
        for fid, (n, what) in sorted(self.known_hits.items()):
            print("KNOWN-FINDING: property=%s %s [%s; %d case(s) this run]" % (self.pid, what, fid, n))
        if self.violations:
            shown = 0
            for desc, obj in self.violations[:5]:
                path = save_replay(self.pid, "%s_%d" % (self.tier, shown), {"description": desc, "case": obj})
                print("VIOLATION property=%s replay=%s" % (self.pid, path))
                print("  " + desc[:600])
                shown += 1
            if len(self.violations) > 5:
                print("  ... %d violations in total" % len(self.violations))
            return 1
        print("OK property=%s tier=%s states=%d transitions=%d impl_traces=%d wall=%.1fs" % (
            self.pid, self.tier, self.states, self.transitions, self.traces, wall))
        return 0
