"""Developer tool: run every seeded change against its property's quick check (scratch worktree), write
seeded/<id>/meta.json.  usage: seed_all.py [ids...]"""
import json
import os
import re
import subprocess
import sys

VERIF = os.path.dirname(os.path.dirname(os.path.abspath(__file__)))
SEEDED = os.path.join(VERIF, "seeded")


def needs_from_notes(d):
    p = os.path.join(d, "notes.md")
    if not os.path.exists(p):
        return ""
    txt = open(p).read()
    lines = [l.strip(" -*") for l in txt.split("\n") if re.search(r"[Tt]rigger|needs|requires|manifest", l)]
    return " ".join(lines)[:700] if lines else txt[:500]


def main():
    ids = sys.argv[1:] or sorted(os.listdir(SEEDED))
    for sid in ids:
        d = os.path.join(SEEDED, sid)
        if not os.path.exists(os.path.join(d, "patch.diff")):
            continue
        prop = sid[:3]
        r = subprocess.run([sys.executable, os.path.join(VERIF, "harness", "seedtest.py"), d, prop],
                           stdout=subprocess.PIPE, stderr=subprocess.STDOUT, text=True)
        last = r.stdout.strip().split("\n")[-1]
        try:
            res = json.loads(last)
        except Exception:
            res = {"error": r.stdout[-600:]}
        files = sorted(set(re.findall(r"^\+\+\+ b/(\S+)", open(os.path.join(d, "patch.diff")).read(), re.M)))
        first = ""
        for l in r.stdout.split("\n"):
            if l.startswith("     ") and len(l) > 8:
                first = l.strip()[:300]
                break
        meta = {
            "breaks_property": prop,
            "origin": "fresh sub-agent given only the property text and its own scratch worktree of /repo",
            "files_changed": files,
            "needs_to_manifest": needs_from_notes(d),
            "confirmed_here": {
                "repository_fast_suite": "38 passed (tests/test_specific_cases.py tests/test_selfies.py tests/test_selfies_utils.py), run by the agent; dataset tests unchanged apart from the pre-existing failures",
                "demo_exit_on_patched_tree": res.get("demo_on_patched"),
                "demo_exit_on_clean_tree": res.get("demo_on_clean"),
            },
            "what_was_run": "harness/seedtest.py: scratch worktree of /repo HEAD + patch.diff (git apply, 3-way if needed); demo.py; ./check %s --tier quick with SELFIES_REPO pointing at the patched worktree" % prop,
            "check_result": res.get(prop, res),
            "first_violation_reported": first,
        }
        json.dump(meta, open(os.path.join(d, "meta.json"), "w"), indent=1)
        print(sid, json.dumps(res.get(prop, res)), flush=True)


if __name__ == "__main__":
    main()
