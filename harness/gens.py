"""Input drivers for RECORD -> TRACE.  They only *produce inputs*; every judgement is TLC's."""
import random

from alphabets import IDX

ATOMS_HI = ["[C]", "[C]", "[C]", "[=C]", "[N]", "[=N]", "[#C]", "[S]", "[P]", "[=S]", "[B]", "[N+1]", "[=O]",
            "[O]", "[C@@H1]", "[C@]", "[/C]", "[\\C]", "[13CH2]", "[Si]", "[=P]", "[#S]"]
ATOMS_LO = ["[F]", "[Cl]", "[H]", "[O-1]", "[CH4]", "[OH1]", "[Br]", "[I]", "[NH3+1]"]
BRANCH = ["[Branch1]", "[=Branch1]", "[#Branch1]", "[Branch2]", "[=Branch2]", "[Branch3]"]
RING = ["[Ring1]", "[=Ring1]", "[#Ring1]", "[Ring2]", "[=Ring2]", "[Ring3]", "[-/Ring1]", "[/\\Ring1]",
        "[\\-Ring2]", "[//Ring1]"]


def index_syms(n):
    if n == 0:
        return [IDX[0]]
    out = []
    while n:
        out.append(IDX[n % 16])
        n //= 16
    return out[::-1]


def long_selfies(rng, n, p_dot=0.01, p_nop=0.02, p_lo=0.04, p_branch=0.12, p_ring=0.12, p_eps=0.003,
                 extra=()):
    """A 'stay-alive' symbol string of about n symbols: mostly high-capacity atoms so that the
    derivation keeps going, with branches of small length, rings of varied span, dots, [nop]."""
    toks = []
    while len(toks) < n:
        r = rng.random()
        if r < p_dot:
            toks.append(".")
        elif r < p_dot + p_nop:
            toks.append("[nop]")
        elif r < p_dot + p_nop + p_lo:
            toks.append(rng.choice(ATOMS_LO))
        elif r < p_dot + p_nop + p_lo + p_branch:
            b = rng.choice(BRANCH)
            L = int(b[-2])
            q = rng.choice([0, 1, 2, 3, 5, 8, 17, 40]) if L > 1 else rng.randrange(0, 6)
            syms = index_syms(q)
            syms = [IDX[0]] * (L - len(syms)) + syms if len(syms) <= L else syms[-L:]
            toks.append(b)
            toks.extend(syms)
        elif r < p_dot + p_nop + p_lo + p_branch + p_ring:
            g = rng.choice(RING)
            L = int(g[-2])
            q = rng.choice([0, 1, 2, 3, 4, 5, 6, 9, 15, 16, 30, 100, 255, 256, 300])
            if L == 1:
                q = rng.randrange(0, 16)
            syms = index_syms(q)
            syms = [IDX[0]] * (L - len(syms)) + syms if len(syms) <= L else syms[-L:]
            toks.append(g)
            toks.extend(syms)
        elif r < p_dot + p_nop + p_lo + p_branch + p_ring + p_eps:
            toks.append("[epsilon]")
        elif extra and rng.random() < 0.05:
            toks.append(rng.choice(extra))
        else:
            toks.append(rng.choice(ATOMS_HI))
    return toks


def many_closed_rings(k):
    """k three-membered rings in a row: more than 99 ring closures, never more than one open."""
    return ["[C]"] + ["[C]", "[C]", "[Ring1]", "[Ring1]"] * k


def rings_beyond_99(rng, tail=150):
    """More than 99 ring closures followed by overlapping (fused / bridged / spiro) rings: ring numbers
    have to be reused while other reused numbers are still open."""
    return many_closed_rings(100) + alive_selfies(rng, tail, p_ring=0.35, p_branch=0.08, p_dot=0.0, p_nop=0.0)


def wrapped_rings(k):
    """A macrocycle that runs through k three-membered rings: its ring bond is opened at the first atom and
    closed at the last one, so its ring number stays in use while more than 99 other rings open and close."""
    toks = ["[N]"] + ["[C]", "[C]", "[C]", "[Ring1]", "[Ring1]"] * k + ["[C]"]
    natoms = 2 + 3 * k
    syms = index_syms(natoms - 2)
    syms = [IDX[0]] * (3 - len(syms)) + syms
    return toks + ["[Ring3]"] + syms


def many_open_rings(k, gap=None):
    """k ring bonds that are all open at the same time in the written SMILES."""
    gap = gap or k
    toks = ["[C]"] * (k + gap)
    q = k + gap - 1
    syms = index_syms(q)
    sym = "[Ring%d]" % len(syms)
    for _ in range(k):
        toks += ["[C]", sym] + syms
    return toks


def deep_branches(depth):
    toks = ["[C]"]
    for _ in range(depth):
        toks += ["[Branch3]", "[P]", "[P]", "[P]", "[C]"]
    return toks


def uniform_strings(rng, alphabet, count, maxlen):
    return [[rng.choice(alphabet) for _ in range(rng.randint(0, maxlen))] for _ in range(count)]


# atoms with (symbol, bond order, capacity under the default table) - generation aid only
_AT = [("[C]", 1, 4), ("[=C]", 2, 4), ("[#C]", 3, 4), ("[N]", 1, 3), ("[=N]", 2, 3), ("[S]", 1, 6), ("[=S]", 2, 6),
       ("[P]", 1, 5), ("[B]", 1, 3), ("[N+1]", 1, 4), ("[C@@H1]", 1, 3), ("[C@]", 1, 4), ("[/C]", 1, 4),
       ("[\\C]", 1, 4), ("[13CH2]", 1, 2), ("[Si]", 1, 8), ("[O]", 1, 2), ("[=C]", 2, 4), ("[C]", 1, 4), ("[C]", 1, 4)]
_END = [("[F]", 1, 1), ("[Cl]", 1, 1), ("[=O]", 2, 2), ("[#N]", 3, 3), ("[O-1]", 1, 1), ("[H]", 1, 1)]


def _fit(syms, L):
    return [IDX[0]] * (L - len(syms)) + syms if len(syms) <= L else syms[-L:]


def alive_selfies(rng, n, p_ring=0.15, p_branch=0.12, p_nop=0.02, p_dot=0.004, depth=0):
    """Symbol string of about n symbols whose derivation stays alive: the generator tracks the
    derivation state approximately (default capacities) and only emits symbols that leave bonds
    free.  Used to reach deep nesting, many rings and long index values in traces."""
    toks = []
    state = 0
    natoms = 0
    while len(toks) < n:
        r = rng.random()
        if state == 0 or natoms == 0:
            sym, b, cap = rng.choice(_AT)
            toks.append(sym)
            state = cap if state == 0 else cap - min(b, state, cap)
            natoms += 1
            continue
        if r < p_dot and depth == 0:
            toks.append(".")
            state = 0
            continue
        if r < p_dot + p_nop:
            toks.append("[nop]")
            continue
        if r < p_dot + p_nop + p_ring and state >= 2 and natoms >= 2:
            span = rng.choice([1, 2, 3, 4, 5, 6, 8, 12, 17, 33, 100, 300])
            q = max(0, min(span, natoms - 1) - 1)
            syms = index_syms(q)
            L = max(len(syms), rng.choice([1, 1, 2, 3]))
            pre = rng.choice(["", "", "", "=", "-/", "\\/", "//"]) if state >= 3 else rng.choice(["", "", "-/", "/\\"])
            toks.append("[%sRing%d]" % (pre, L))
            toks.extend(_fit(syms, L))
            state -= min(2 if pre == "=" else 1, state)
            continue
        if r < p_dot + p_nop + p_ring + p_branch and state >= 2 and depth < 6:
            blen = rng.choice([1, 2, 3, 5, 8, 20, 40]) if depth < 3 else rng.choice([1, 2, 3])
            inner = alive_selfies(rng, blen, p_ring=p_ring, p_branch=p_branch, p_nop=0, p_dot=0, depth=depth + 1)
            inner = [t for t in inner]
            q = len(inner) - 1
            syms = index_syms(q)
            L = max(len(syms), rng.choice([1, 1, 2, 3]))
            bo = rng.choice(["", "", "=", "#"])
            toks.append("[%sBranch%d]" % (bo, L))
            toks.extend(_fit(syms, L))
            toks.extend(inner)
            binit = min(state - 1, {"": 1, "=": 2, "#": 3}[bo])
            state -= binit
            natoms += sum(1 for t in inner if "Ring" not in t and "Branch" not in t)
            continue
        if state == 1 and rng.random() < 0.15:
            sym, b, cap = rng.choice(_END)
        else:
            sym, b, cap = rng.choice(_AT)
        used = min(b, state, cap)
        if cap - used == 0 and len(toks) < n - 1 and depth == 0:
            sym, b, cap = "[C]", 1, 4
            used = min(1, state)
        toks.append(sym)
        state = cap - used
        natoms += 1
    return toks
