"""Prints the results of a fixed set of translations (one per line); compared across hash seeds / processes."""
import os
import random
import sys

sys.path.insert(0, os.path.dirname(os.path.abspath(__file__)))
import dec_engine as de
import gens
import gens_smiles as gs

rng = random.Random(20240521)
sf = de.selfies_mod()
for tab in ("default", "octet_rule", {"C": 3, "N": 2, "O": 1, "?": 5}):
    sf.set_semantic_constraints(tab if isinstance(tab, str) else dict(tab))
    for _ in range(150):
        s = "".join(gens.alive_selfies(rng, rng.randint(1, 50)))
        print("D", s, de.call_decoder(s))
    for s in gs.BUILTIN:
        for strict in (True, False):
            print("E", s, strict, de.call_encoder(s, strict))
    print("A", sorted(sf.get_semantic_robust_alphabet()))
    print("C", sorted(sf.get_semantic_constraints().items()))
sf.set_semantic_constraints("default")
