"""API-history checks: C11 (purity under histories) and C12 (configuration API)."""
import json
import os
import random
import subprocess
import sys

from common import MachineryError, seed, scratch, run_tlc, run_parallel, tlc_ok, tla_str, tla_seq, tla_set, NCPU, log, VERIF
from report import Report
import dec_engine as de

# candidate tables: (TLA+ rendering, python object given to the library)
CUSTOMS = [
    ({"C": 6, "N": 5, "O": 3, "N+1": 1, "?": 3}, {"C": 6, "N": 5, "O": 3, "N+1": 1, "?": 3}),   # valid, looser than default for C N O
    ({"C": 2, "N+1": 1, "O": 1, "?": 3}, {"C": 2, "N+1": 1, "O": 1, "?": 3}),          # valid
    # a sub-table of the default preset with the same values: going from "default" to it REMOVES keys and changes no value
    ({"C": 4, "N": 3, "O": 2, "?": 8}, {"C": 4, "N": 3, "O": 2, "?": 8}),
    ({"?": 1}, {"?": 1}),                                                               # valid, everything by default
    ({"C": 4, "N": 3}, {"C": 4, "N": 3}),                                               # missing '?'
    ({"C": 4, "Xx": 1, "?": 8}, {"C": 4, "Xx": 1, "?": 8}),                             # malformed key after a good one
    ({"C": 3, "N": -1, "?": 8}, {"C": 3, "N": -1, "?": 8}),                             # negative capacity
    ({"C": 3, "O": -1, "?": 8}, {"C": 3, "O": 2.5, "?": 8}),                            # non-integer capacity (modelled as invalid)
    ({"C+0": 2, "?": 8}, {"C+0": 2, "?": 8}),                                           # non-canonical charge
]
DPROBES = [["[C]", "[=C]", "[#C]", "[N+1]", "[=O]", "[Fe]", "[=Fe]"],
           # symbols of the old syntax: rejected unless compatible=True - whatever an earlier call did with them
           ["[C]", "[C@@Hexpl]", "[N+expl]", "[Branch1_2]", "[C]", "[O]", "[Expl=Ring1]", "[C]", "[13CHexpl]"],
           # a non-index symbol in index position, then a two-symbol index reaching 18 atoms back
           ["[C]", "[C]", "[C]", "[Ring1]", "[F]", "."] + ["[C]"] * 20 + ["[Ring2]", "[Ring1]", "[Ring1]", "[O]", "[Branch2]", "[Foo2]"],
           ["[C]", "[NH4]", "[C]", "[OH3]", "[CH5]", "[C]"],          # hydrogen-rich atoms: in / out of the grammar depending on the table
           ["[C]", "[Branch1]", "[C]", "[O]", "[=N+1]", "[Ring1]", "[C]", "[C]"],
           ["[O]", "[=O]", "[=O]", ".", "[NH4+1]", "[Foo]"]]
EPROBES = [["[CH5]", "C", "#C"],      # five hydrogens: strict accepts it only under a roomy table, strict=False under every table
           ["C", "=C", "#C"], ["N", "(", "C", ")", "(", "C", ")", "(", "C", ")", "C"], ["O", "=[N+]", "(", "O", ")", "C"],
           ["c", "1", "c", "c", "c", "c", "c", "1"]]


def api_params(presets, customs, dprobes, eprobes, maxhist, maxheap, alias=False, clear=True, copy=True):
    def tab(t):
        return " @@ ".join("(%s :> %d)" % (tla_str(k), v) for k, v in t.items())
    lines = ["---- MODULE ApiParams ----", "EXTENDS Integers, Sequences, TLC",
             "Presets == %s" % tla_set(presets),
             "Customs == << %s >>" % ", ".join(tab(t) for t, _ in customs),
             "DProbes == << %s >>" % ", ".join(tla_seq(p) for p in dprobes),
             "EProbes == << %s >>" % ", ".join(tla_seq(p) for p in eprobes),
             "MaxHist == %d" % maxhist, "MaxHeap == %d" % maxheap,
             "AliasAlphabet == %s" % ("TRUE" if alias else "FALSE"),
             "ClearOnSet == %s" % ("TRUE" if clear else "FALSE"),
             "CopyOnSet == %s" % ("TRUE" if copy else "FALSE"), "===="]
    return "\n".join(lines) + "\n"


def run_api_tlc(name, maxhist, customs, dprobes, eprobes, presets=("default", "octet_rule"), emit=False,
                alias=False, clear=True, copy=True, invariants=(), properties=(), timeout=3000, view=True):
    work = scratch("api_%s_" % name)
    with open(os.path.join(work, "ApiParams.tla"), "w") as f:
        f.write(api_params(list(presets), customs, dprobes, eprobes, maxhist, 4 + 2 * maxhist + 2, alias, clear, copy))
    known = sorted(set(t for p in dprobes for t in p))
    with open(os.path.join(work, "DecParams.tla"), "w") as f:
        f.write(de.dec_params("default", alphabet=known, known=known, gen=False))
    with open(os.path.join(work, "MC_api.tla"), "w") as f:
        f.write("---- MODULE MC_api ----\nEXTENDS SelfiesAPI\n====\n")
    cfg = ["SPECIFICATION ASpec"] + ["INVARIANT " + i for i in invariants] + ["PROPERTY " + p for p in properties]
    if emit:
        cfg.append("INVARIANT HistEmit")
    elif view:
        cfg.append("VIEW AView")
    cfg.append("CHECK_DEADLOCK FALSE")
    r = run_tlc(work, "MC_api", "\n".join(cfg) + "\n", workers=NCPU, timeout=timeout, heap="8g",
                stdout_path=os.path.join(work, "out.txt"), keep_json=emit)
    tlc_ok(r, name)
    hists = [v["hist"] for v in r.printed if isinstance(v, dict) and "hist" in v]
    r.printed = []
    return r, hists


API_INVARIANTS = ["PresetsImmutable", "NoAliasing", "CurValid", "SetGet", "CachesCoherent", "ResultFresh", "LaxTableFree"]


def _norm_table(obs):
    return dict(obs) if isinstance(obs, dict) else {}


class _ZeroDict(dict):
    """a dict subclass with a __missing__ hook: as a constraint table it means what the plain dict means"""
    def __missing__(self, key):
        return 0


def _make_table(kind, items):
    """The same table handed to the library as different mapping types (the specification's table is the
    mapping itself, not the Python class it arrives in)."""
    import collections
    if kind == 1:
        return collections.defaultdict(int, items)
    if kind == 2:
        return collections.OrderedDict(reversed(list(items.items())))
    if kind == 3:
        return _ZeroDict(items)
    if kind == 4:
        return collections.defaultdict(lambda: 1, items)
    return dict(items)


def _edit_returned(ret):
    """Whatever a setter hands back is an object the caller may edit (the specification's setter returns nothing)."""
    if isinstance(ret, dict):
        ret.pop("?", None)
        ret["C"] = 0
        ret["Zz"] = 1
    elif isinstance(ret, set):
        ret.add("[junk]")
        ret.discard("[C]")
    elif isinstance(ret, list):
        ret.append("[junk]")


def replay_history(sf, hist, customs, dprobes, eprobes, kind=0):
    """Replays one specification history into the library; returns (step index, message, via_set_mutation) or None."""
    _edit_returned(sf.set_semantic_constraints("default"))
    objs = {}
    set_mutated = False
    for n, h in enumerate(hist):
        op, arg, obs = h["op"], h["arg"], h["obs"]
        try:
            if op == "set_preset":
                try:
                    _edit_returned(sf.set_semantic_constraints(arg))
                    got = "None"
                except ValueError:
                    got = "ValueError"
                if got != obs["t"]:
                    return n, "set_semantic_constraints(%r): %s, specification %s" % (arg, got, obs["t"]), set_mutated
            elif op == "new_dict":
                objs[arg[1]] = _make_table(kind, customs[arg[0] - 1][1])
            elif op == "set_custom":
                try:
                    _edit_returned(sf.set_semantic_constraints(objs[arg]))
                    got = "None"
                except ValueError:
                    got = "ValueError"
                if got != obs["t"]:
                    return n, "set_semantic_constraints(%r): %s, specification %s" % (objs[arg], got, obs["t"]), set_mutated
            elif op == "get_constraints":
                r = sf.get_semantic_constraints()
                objs[arg] = r
                if r != _norm_table(obs["v"]):
                    return n, "get_semantic_constraints() = %r, specification %r" % (r, obs["v"]), set_mutated
            elif op == "get_preset":
                r = sf.get_preset_constraints(arg[0])
                objs[arg[1]] = r
                if r != _norm_table(obs["v"]):
                    return n, "get_preset_constraints(%r) = %r, specification %r" % (arg[0], r, obs["v"]), set_mutated
            elif op == "get_alphabet":
                r = sf.get_semantic_robust_alphabet()
                objs[arg] = r
                if set(r) != set(obs["v"]):
                    return n, "get_semantic_robust_alphabet(): extra %s missing %s" % (
                        sorted(set(r) - set(obs["v"]))[:4], sorted(set(obs["v"]) - set(r))[:4]), set_mutated
            elif op == "mutate":
                o = objs[arg]
                if isinstance(o, dict):
                    o.pop("?", None)
                    o["C"] = 0
                    o["Zz"] = 1
                else:
                    o.add("[junk]")
                    o.discard("[C]")
                    o.discard("[=C]")
                    set_mutated = True
            elif op == "decode_compat":
                kind, val = de.call_decoder("".join(dprobes[arg - 1]), True)
                if (kind, val) != (obs["kind"], obs["value"]):
                    return n, "decoder(%r, compatible=True) = %s %r, specification %s %r" % (
                        "".join(dprobes[arg - 1]), kind, val, obs["kind"], obs["value"]), set_mutated
            elif op == "decode":
                kind, val = de.call_decoder("".join(dprobes[arg - 1]))
                if (kind, val) != (obs["kind"], obs["value"]):
                    return n, "decoder(%r) = %s %r, specification %s %r" % (
                        "".join(dprobes[arg - 1]), kind, val, obs["kind"], obs["value"]), set_mutated
            elif op in ("encode", "encode_strict"):
                kind, val, why = de.call_encoder("".join(eprobes[arg - 1]), strict=(op == "encode_strict"))
                if (kind, val) != (obs["kind"], obs["value"]):
                    return n, "encoder(%r, strict=%s) = %s %r, specification %s %r" % (
                        "".join(eprobes[arg - 1]), op == "encode_strict", kind, val, obs["kind"], obs["value"]), set_mutated
        except Exception as e:
            return n, "%s raised %s: %s" % (op, type(e).__name__, e), set_mutated
    return None


def _next_index(hist, n):
    """heap index the specification gave to the object created by step n (get_preset logs the name, so
    the index is recovered by counting allocations)."""
    idx = 4
    for h in hist[: n + 1]:
        if h["op"] in ("set_preset",) and h["obs"] == "None":
            idx += 1
        elif h["op"] == "set_custom" and h["obs"] == "None":
            idx += 1
        elif h["op"] in ("new_dict", "get_constraints", "get_preset"):
            idx += 1
        elif h["op"] == "get_alphabet":
            idx = max(idx, h["arg"])
    return idx


def _replay_chunk(args):
    hists, customs, dprobes, eprobes = args
    sf = de.selfies_mod()
    out = []
    try:
        for i, h in hists:
            r = replay_history(sf, h, customs, dprobes, eprobes, kind=(i % 7 if i % 7 < 5 else 0))
            if r is not None:
                out.append((i, r))
    finally:
        sf.set_semantic_constraints("default")
    return out


def replay_histories(rep, hists, customs, dprobes, eprobes):
    items = list(enumerate(hists))
    res = []
    for part in de.pmap(_replay_chunk, [(c, customs, dprobes, eprobes) for c in de.chunked(items, NCPU if len(items) > 2000 else 1)]):
        res.extend(part)
    rep.traces += len(hists)
    for i, (n, msg, via_set) in res:
        hist = hists[i]
        f = [x for x in rep.findings if x.get("signature") == "api:mutation-of-returned-robust-alphabet-visible-to-later-calls"]
        if rep.pid == "C11" and hist[n]["op"] not in ("decode", "decode_compat", "encode", "encode_strict"):
            continue        # C11 is about translation results; the configuration getters belong to C12
        if via_set and hist[n]["op"] == "get_alphabet" and f:
            rep.known(f[0]["id"], f[0]["what"][:300])
            continue
        rep.violation("history step %d: %s; history: %s%s" % (n + 1, msg, [(h["op"], h["arg"]) for h in hist[: n + 1]],
                                                            "" if i % 7 in (0, 5, 6) else " (custom tables passed as %s)" % type(_make_table(i % 7, {})).__name__),
                      {"history": hist, "failing_step": n + 1, "message": msg, "table_kind": (i % 7 if i % 7 < 5 else 0)})
    return res


def apalache_api_inductive(rep):
    """History-unbounded argument for the configuration protocol: on the sequence-free abstraction
    spec/apalache/ApiAbs.tla the conjunction (memo coherent with the live table, memoised alphabet computed
    from the live table, no caller object aliases a library object, presets unchanged, last translation read
    the live values) is shown INDUCTIVE with Apalache - it holds after any number of API calls - and three
    negative configurations obtained by text substitution must be refuted."""
    import shutil
    import subprocess
    from common import SPEC_DIR
    if shutil.which("apalache-mc") is None:
        rep.notes["apalache"] = "apalache-mc not found: inductive argument skipped"
        return
    work = scratch("apa_api_")
    src = open(os.path.join(SPEC_DIR, "apalache", "ApiAbs.tla")).read()
    variants = {
        "ApiAbs": src,
        "ApiAbsNoClear": src.replace("Invalidate == capc' = [k \\in Keys |-> NotMemo] /\\ alphaValid' = FALSE /\\ UNCHANGED alphaTab",
                                     "Invalidate == UNCHANGED <<capc, alphaValid, alphaTab>>"),
        "ApiAbsAliasPreset": src.replace("  /\\ alias' = [alias EXCEPT ![o] = Own]\n  /\\ UNCHANGED <<cur, capc, alphaValid, alphaTab, pre, pre0>> /\\ NoRead\n\n(* get_semantic_robust",
                                         "  /\\ alias' = [alias EXCEPT ![o] = 10 + p]\n  /\\ UNCHANGED <<cur, capc, alphaValid, alphaTab, pre, pre0>> /\\ NoRead\n\n(* get_semantic_robust"),
        "ApiAbsAliasAlphabet": src.replace("  /\\ alias' = [alias EXCEPT ![o] = Own]\n  /\\ UNCHANGED <<cur, capc, pre, pre0>> /\\ NoRead",
                                           "  /\\ alias' = [alias EXCEPT ![o] = 2]\n  /\\ UNCHANGED <<cur, capc, pre, pre0>> /\\ NoRead"),
    }
    for name, text in variants.items():
        if name != "ApiAbs" and text == src:
            raise MachineryError("negative configuration %s: substitution did not apply" % name)
        with open(os.path.join(work, name + ".tla"), "w") as f:
            f.write(text.replace("MODULE ApiAbs ", "MODULE %s " % name, 1))
    runs = [("base case Init => IndInv", "ApiAbs", ["--init=Init", "--inv=IndInvR", "--length=0"], True),
            ("inductive step IndInv /\\ Next => IndInv'", "ApiAbs", ["--init=IndInitR", "--inv=IndInvR", "--length=1"], True),
            ("negative: set without invalidation is refuted", "ApiAbsNoClear", ["--init=IndInitR", "--inv=IndInvR", "--length=1"], False),
            ("negative: preset getter returns the library's object is refuted", "ApiAbsAliasPreset", ["--init=IndInitR", "--inv=IndInvR", "--length=1"], False),
            ("the code's alphabet getter (returns the memoised set itself, known finding KF-C12-alphabet-alias) is refuted",
             "ApiAbsAliasAlphabet", ["--init=IndInitR", "--inv=IndInvR", "--length=1"], False)]

    def one(run):
        what, mod, args, want_ok = run
        try:
            p_ = subprocess.run(["apalache-mc", "check"] + args + ["--out-dir=" + os.path.join(work, "out_" + mod + args[2][-1]), mod + ".tla"],
                                cwd=work, stdout=subprocess.PIPE, stderr=subprocess.STDOUT, timeout=900, text=True)
            return p_.stdout
        except subprocess.TimeoutExpired:
            return "TIMEOUT"
    from common import run_parallel
    outs = run_parallel([(lambda r=r: one(r)) for r in runs], max_procs=5)
    res = []
    for (what, mod, args, want_ok), out in zip(runs, outs):
        ok = "The outcome is: NoError" in out
        err = "The outcome is: Error" in out
        if not ok and not err:
            rep.notes["apalache"] = "apalache did not run (%s): %s" % (what, out[-300:])
            return
        res.append({"obligation": what, "discharged": ok if want_ok else err})
        if want_ok and err:
            rep.violation("specification-level: Apalache refutes '%s' for ApiAbs" % what, {"log": out[-1500:]})
        if not want_ok and ok:
            raise MachineryError("negative configuration of the inductive argument was not refuted: " + what)
    rep.notes["apalache_inductive_invariant"] = res


def api_check(pid, tier, invariants, ops_note):
    rep = Report(pid, tier)
    quick = tier == "quick"
    rep.notes["rule"] = ("TLC explores every history of API calls up to the depth bound over presets, valid and invalid "
                         "custom tables, caller-side mutation of every object handed across the API, and probe "
                         "translations that hit every cache; invariants are evaluated in every state; every maximal "
                         "history is replayed call by call into the library and every observable compared; "
                         "non-trivial = history with a state-changing call followed by an observation")
    d = 4 if quick else 5
    customs = CUSTOMS if not quick else CUSTOMS[:5]
    dpro = DPROBES[:4] if quick else DPROBES
    epro = EPROBES[:1] if quick else EPROBES[:4]
    # design-level MC (VIEW hides nothing relevant: the history is replaced by its length)
    dm = d + 1 if quick else d
    r, _ = run_api_tlc("mc", dm, customs, dpro, epro, invariants=API_INVARIANTS, properties=["RejectAtomic"], timeout=6000)
    rep.add_tlc(r, "SelfiesAPI depth %d (design: copy on get, clear on set)" % dm)
    if r.violated:
        rep.violation("specification-level: %s" % r.violated, {"errors": r.errors[:2]})
    # negative controls: the model can see the bug classes (must be violated)
    for nm, kw, inv in (("alias", {"alias": True}, "NoAliasing"), ("noclear", {"clear": False}, "CachesCoherent"),
                        ("nocopy", {"copy": False}, "NoAliasing")):
        rn, _ = run_api_tlc("neg_" + nm, 4, customs[:2], dpro[:1], epro[:1], invariants=[inv], **kw)
        rep.add_tlc(rn, "negative control %s" % nm)
        if inv not in rn.violated and not any(inv in e for e in rn.errors):
            raise MachineryError("negative control %s did not violate %s: the model cannot see this bug class" % (nm, inv))
    rep.notes["negative_controls"] = ["alias->NoAliasing", "noclear->CachesCoherent", "nocopy->NoAliasing"]
    apalache_api_inductive(rep)
    # GEN -> REPLAY of full histories
    dg = d if quick else 4
    r, hists = run_api_tlc("gen", dg, customs, dpro, epro, emit=True, invariants=[], view=False)
    rep.add_tlc(r, "SelfiesAPI histories of length %d" % dg)
    if not quick:       # one step deeper over a reduced set of tables and probes
        r5, h5 = run_api_tlc("gen5", 5, customs[:3], dpro[1:3], epro[:1], emit=True, invariants=[], view=False,
                             presets=("default",), timeout=6000)
        rep.add_tlc(r5, "SelfiesAPI histories of length 5 (reduced)")
        replay_histories(rep, h5, customs[:3], dpro[1:3], epro[:1])
    for h in hists:
        ops = [x["op"] for x in h]
        rep.case(json.dumps([(x["op"], x["arg"]) for x in h]),
                 nontrivial=any(o in ("set_preset", "set_custom", "mutate") for o in ops[:-1]))
    for h in hists[:: max(1, len(hists) // 3)][:3]:
        rep.sample([(x["op"], x["arg"]) for x in h])
    replay_histories(rep, hists, customs, dpro, epro)
    rep.notes["histories"] = len(hists)
    return rep


def random_histories(rep, quick, rng, config_side):
    """Long random API histories, each in a fresh interpreter (api_driver.py); translations, presets and alphabets
    are compared with a second, clean interpreter.  config_side: report the configuration-API divergences (C12)
    instead of the translation ones (C11)."""
    script = os.path.join(VERIF, "harness", "api_driver.py")
    n_hist = 6 if quick else 40
    jobs = []
    for k in range(n_hist):
        jobs.append((rng.randrange(1 << 30), 60 if quick else 150))
    env = dict(os.environ)

    def run(job):
        sd, ln = job
        p = subprocess.run([sys.executable, script, str(sd), str(ln)], stdout=subprocess.PIPE, stderr=subprocess.PIPE,
                           env=env, timeout=1800)
        return p.returncode, p.stdout.decode(), p.stderr.decode()
    for (rc, out, err), job in zip(run_parallel([lambda j=j: run(j) for j in jobs]), jobs):
        if rc not in (0, 1):
            raise MachineryError("api_driver failed: %s" % err[-1500:])
        for line in out.split("\n"):
            if line.startswith("STEPS"):
                rep.traces += int(line.split()[1])
            if line.startswith("DIVERGE"):
                info = json.loads(line[8:])
                f = [x for x in rep.findings if x.get("signature") == "api:mutation-of-returned-robust-alphabet-visible-to-later-calls"]
                is_config = info.get("what") in ("alphabet", "accepted", "state", "preset")
                if is_config != config_side:
                    continue            # the other property's business
                if info.get("what") == "alphabet" and info.get("after_set_mutation") and f:
                    rep.known(f[0]["id"], f[0]["what"][:300])
                    continue
                rep.violation("random API history (seed %d): %s" % (job[0], info.get("message")), info)
    rep.notes["random_histories"] = n_hist


def check_C12(tier):
    rep = api_check("C12", tier, API_INVARIANTS, "")
    random_histories(rep, tier == "quick", random.Random(seed() * 17 + 12), config_side=True)
    # rejection reasons that a TLA+ table cannot carry: wrong types
    sf = de.selfies_mod()
    bad_args = [None, 5, 3.5, ["C"], ("default",), {"C": "4", "?": 8}, {"C": None, "?": 8}, {"?": 8.0}, "no_such", b"default",
                {"?": -1}, {"?": 2.5}, {"?": "8"}, {"?": None}, {"C": 4, "?": -3},
                {"N+1 ": 3, "?": 8}, {"N+ 1": 3, "?": 8}, {"O-\t2": 1, "?": 8}, {"N+1\n": 3, "?": 8}, {"Fe+1_0": 2, "?": 8},
                {"N+\u0661": 3, "?": 8}, {"Cu+\uff12": 2, "?": 8}, {"C+\u00b2": 2, "?": 8}, {" C": 4, "?": 8}, {"C ": 4, "?": 8},
                {"N++1": 3, "?": 8}, {"N+-1": 3, "?": 8}, {"n": 3, "?": 8}, {"": 3, "?": 8}, {"?": 8, "??": 1}]
    for arg in bad_args:
        before = (sf.get_semantic_constraints(), set(sf.get_semantic_robust_alphabet()), de.call_decoder("[C][=C][#N][=O]"))
        try:
            sf.set_semantic_constraints(arg)
            rep.violation("set_semantic_constraints(%r) was accepted" % (arg,), {"arg": repr(arg)})
        except ValueError:
            pass
        except Exception as e:
            rep.notes.setdefault("other_exception_types", []).append("%r -> %s" % (arg, type(e).__name__))
        try:
            after = (sf.get_semantic_constraints(), set(sf.get_semantic_robust_alphabet()), de.call_decoder("[C][=C][#N][=O]"))
        except Exception as e:      # the getters themselves fail: the argument was installed and corrupts the library state
            after = ("<%s>" % type(e).__name__,)
        rep.traces += 1
        if before != after:
            rep.violation("set_semantic_constraints(%r), which must be rejected, changed the library state (%s)" % (
                arg, after[0] if len(after) == 1 else "table / alphabet / probe decode differ"), {"arg": repr(arg)})
            try:
                sf.set_semantic_constraints("default")
            except Exception:
                pass
    sf.set_semantic_constraints("default")
    for name in ("bogus", "", "Default"):
        try:
            sf.get_preset_constraints(name)
            rep.violation("get_preset_constraints(%r) accepted" % name, {})
        except ValueError:
            pass
        except Exception as e:
            rep.violation("get_preset_constraints(%r) raised %s" % (name, type(e).__name__), {})
    rep.exhaustive = True
    return rep.finish()


def check_C11(tier):
    rep = api_check("C11", tier, API_INVARIANTS, "")
    quick = tier == "quick"
    rng = random.Random(seed() * 13 + 11)
    random_histories(rep, quick, rng, config_side=False)
    # purity across table switches and repetition, on the broad alphabets: every vector is decoded under its table,
    # the table is switched away and back, other inputs are decoded in between, and the result must be the same
    import checks_dec
    from alphabets import TABLES
    sf = de.selfies_mod()
    sets = checks_dec.broad_vectors(rep, quick, "pu")
    first = {}
    try:
        for rnd in range(2):
            order = list(range(len(sets)))
            rng.shuffle(order)
            for si in order:
                tab, vectors = sets[si]
                de.set_table(TABLES[tab])
                vs = list(vectors)
                rng.shuffle(vs)
                for v in vs[: (4000 if quick else 40000)]:
                    s_ = "".join(v["inp"])
                    got = de.call_decoder(s_)
                    rep.traces += 1
                    if got != (v["kind"], v["out"]) and not v.get("fuzzy"):
                        rep.violation("decoder(%r) under table %s after a history of other calls and table switches: %r, "
                                      "specification %r" % (s_, tab, got, (v["kind"], v["out"])), {"tokens": v["inp"], "table": TABLES[tab]})
                    key = (si, s_)
                    if first.setdefault(key, got) != got:
                        rep.violation("decoder(%r) under table %s is not repeatable: %r then %r" % (s_, tab, first[key], got),
                                      {"tokens": v["inp"], "table": TABLES[tab]})
    finally:
        sf.set_semantic_constraints("default")
    # identical across processes and hash seeds
    probe = os.path.join(VERIF, "harness", "hashseed_probe.py")
    logs = {}
    for hs in ("0", "1", "12345", "random"):
        e2 = dict(os.environ, PYTHONHASHSEED=hs)
        p = subprocess.run([sys.executable, probe], stdout=subprocess.PIPE, stderr=subprocess.PIPE, env=e2, timeout=900)
        if p.returncode != 0:
            raise MachineryError("hashseed probe failed: %s" % p.stderr.decode()[-1500:])
        logs[hs] = p.stdout.decode()
        rep.traces += logs[hs].count("\n")
    ref = logs["0"]
    for hs, lg in logs.items():
        if lg != ref:
            a, b = ref.split("\n"), lg.split("\n")
            diff = next((i for i, (x, y) in enumerate(zip(a, b)) if x != y), -1)
            rep.violation("results differ between PYTHONHASHSEED=0 and %s at line %d: %r vs %r" % (
                hs, diff, a[diff][:200] if diff >= 0 else "", b[diff][:200] if diff >= 0 else ""), {"hashseed": hs})
    rep.exhaustive = True
    return rep.finish()
