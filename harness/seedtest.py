"""Developer tool (not a registered check): apply a seeded change to /repo, run checks, undo it.
usage: seedtest.py <seed-dir> <check-id> [<check-id> ...] [--tier quick]"""
import json
import os
import subprocess
import sys
import time


def sh(cmd, **kw):
    return subprocess.run(cmd, shell=True, stdout=subprocess.PIPE, stderr=subprocess.STDOUT, text=True, **kw)


def main():
    args = [a for a in sys.argv[1:] if not a.startswith("--")]
    tier = "quick"
    if "--tier" in sys.argv:
        tier = sys.argv[sys.argv.index("--tier") + 1]
        args = [a for a in args if a != tier]
    d = os.path.abspath(args[0])
    checks = args[1:]
    repo = "/tmp/seedrun/repo_%d" % os.getpid()
    os.makedirs("/tmp/seedrun", exist_ok=True)
    sh("git -C /repo worktree add --detach %s HEAD" % repo)
    env = "SELFIES_REPO=%s VERIF_EVIDENCE_DIR=/tmp/seedrun/ev_%d" % (repo, os.getpid())
    r = sh("git -C %s apply --check %s/patch.diff" % (repo, d))
    threeway = ""
    if r.returncode != 0:
        r = sh("git -C %s apply --3way --check %s/patch.diff" % (repo, d))
        threeway = "--3way "
    if r.returncode != 0:
        print("patch does not apply:\n" + r.stdout)
        sh("git -C /repo worktree remove --force %s" % repo)
        return 2
    results = {}
    try:
        print(sh("git -C %s apply %s%s/patch.diff" % (repo, threeway, d)).stdout.strip()[-300:])
        if os.path.exists(os.path.join(d, "demo.py")):
            r = sh("/venv/bin/python %s/demo.py %s" % (d, repo), timeout=600)
            results["demo_on_patched"] = r.returncode
            print("demo on patched tree: exit %d (%s)" % (r.returncode, r.stdout.strip().split("\n")[-1][:150]))
        for c in checks:
            t0 = time.time()
            r = sh("cd /verif && %s ./check %s --tier %s" % (env, c, tier), timeout=7200)
            viol = [l for l in r.stdout.split("\n") if l.startswith("VIOLATION")]
            results[c] = {"exit": r.returncode, "violations": len(viol), "wall": round(time.time() - t0)}
            print("check %s: exit %d, %d VIOLATION lines, %.0fs" % (c, r.returncode, len(viol), time.time() - t0))
            for l in r.stdout.split("\n"):
                if l.startswith("  ") and len(l) > 4:
                    print("   " + l[:220])
                    break
            if r.returncode == 2:
                print(r.stdout[-1500:])
    finally:
        sh("git -C /repo worktree remove --force %s" % repo)
        sh("rm -rf /tmp/seedrun/ev_%d" % os.getpid())
    if os.path.exists(os.path.join(d, "demo.py")):
        r = sh("/venv/bin/python %s/demo.py /repo" % d, timeout=600)
        results["demo_on_clean"] = r.returncode
        print("demo on clean tree: exit %d" % r.returncode)
    print(json.dumps(results))
    return 0


if __name__ == "__main__":
    sys.exit(main())
