"""Regenerates /verif/MANIFEST.json from the table below (kept in one place so it stays valid)."""
import json
import os
import subprocess

VERIF = os.path.dirname(os.path.dirname(os.path.abspath(__file__)))
props = [json.loads(l) for l in open(os.path.join(VERIF, "properties.jsonl"))]

TRUST = ("TLC 1.8 and the TLA+ specification in /verif/spec as the oracle; /venv/bin/python importing selfies from "
         "/repo's working tree; enumeration bounds and alphabets as reported in the evidence file; beyond the bounds "
         "the claim rests on validated traces (sampling).")

CHECKS = {
 "C01": ("TLC model checking of the decoder machine (C01 clauses as invariants in every state, write.parse=id) + "
         "TLC-generated vectors replayed into selfies.decoder + recorded decoder calls validated by TLC (TraceDec)",
         "The decoder specification (Derive/RingPass/SmilesWriter) is model-checked exhaustively over all symbol strings "
         "up to a length bound for several alphabets and tables with valence, well-formedness, label and read-back "
         "invariants in every state; every terminal behaviour is replayed into the real decoder and long / adversarial "
         "real executions (hundreds to thousands of symbols, >99 rings) are validated step by step against the same "
         "machine, so an implementation change that produces a molecule or spelling the specification does not allow is "
         "seen, and the specification itself is shown to have the property.", "DESIGN.md section 6 (C01)"),
 "C02": ("TLC-generated behaviours of the decoder specification (all strings up to a bound, every rule in every state) "
         "replayed into selfies.decoder, incl. narrow-deep enumerations (4 symbols x 9-10); recorded calls - long generated strings "
         "and every call the repository's own fast tests make - validated by TLC trace checking",
         "Exact agreement (string, else molecule read back by the specification's SMILES reader) between the "
         "implementation and an independent TLA+ rendering of the derivation grammar on every enumerated string and "
         "on long sampled strings; rejection kind compared in the precise region.", "DESIGN.md section 6 (C02)"),
 "C07": ("TLC enumeration of constraint tables (TableSpace) with alphabet invariants, replayed into "
         "set_semantic_constraints/get_semantic_robust_alphabet; decoder machine over the robust alphabet model-checked "
         "(incl. every string over 4-symbol sub-alphabets up to 9-10 symbols) and trace-validated",
         "Acceptance of tables and the returned alphabet are compared with the specification for every enumerated table "
         "(set equality); strings over the alphabet are model-checked never to reach an invalid symbol and to keep the "
         "C01 invariants, and real decodes of long random strings over the returned alphabet are trace-validated.",
         "DESIGN.md section 6 (C07)"),
 "C08": ("TLC liveness (termination under weak fairness) and two-outcome totality of the text->lexer->decoder "
         "specification; enumerated and fuzzed text replayed into selfies.decoder under all flag combinations; "
         "TLC trace validation of fuzz outcomes",
         "The specification terminates with exactly two outcomes on all texts up to the bound; the code is driven with "
         "every enumerated text, symbol-level junk, fuzz (incl. non-ASCII) and very large / deep inputs under the four "
         "flag combinations and must return or raise DecoderError within a time bound, leaving the table untouched.",
         "DESIGN.md section 6 (C08)"),
 "C13": ("TLC model checking of NopInvisible (self-composition with the [nop]-free run) over all strings with [nop] "
         "up to a bound; vectors replayed twice into selfies.decoder; TLC trace validation of long padded strings",
         "2-safety by comparing, at every terminal state, with the specification's run on the stripped string; both "
         "spellings are replayed into the code; long random paddings and the encoding utilities' padding are traced.",
         "DESIGN.md section 6 (C13)"),
 "C14": ("TLC model checking of the lexer specification (Split/Scan/WellFormed invariants) over all texts up to a "
         "bound; vectors replayed into split_selfies/len_selfies/get_alphabet_from_selfies; token streams trace-validated",
         "Exhaustive over short texts on a 4-character alphabet, exact on the well-formed region, totality elsewhere.",
         "DESIGN.md section 6 (C14)"),
 "C16": ("TLC constant-level evaluation (ASSUMEs over all n < 16^3 and all symbol triples) + ImplTables equality + "
         "TLC trace validation of decoder calls with every index-symbol tuple and every class of symbol in index positions; "
         "Apalache: the digit writer's invariant n = rem*w + val is inductive over the unbounded integers (IndexAbs)",
         "The positional code is checked exhaustively at constant level in the specification, the implementation's "
         "INDEX_ALPHABET is compared with the documented order, and ring/branch placement for index tuples is validated "
         "through the public decoder.", "DESIGN.md section 6 (C16)"),
 "C18": ("TLC model checking of CompatIsModern over all strings mixing modern and legacy symbols up to a bound, both "
         "flag values; vectors replayed into selfies.decoder; constant-level Modernize obligations; traces",
         "The compatibility mapping is specified from the CHANGELOG and checked as a lock-step equality in the "
         "specification; the code is compared on every enumerated string with both flag values and on random mixes.",
         "DESIGN.md section 6 (C18)"),
}


CHECKS.update({
 "C03": ("TLC model checking of the Encode->Decode round trip (SameAtoms/SameBonds invariants) over all SMILES token strings "
         "up to a bound; TLC-generated allowed outcomes replayed into selfies.encoder; dataset molecules in many spellings "
         "recorded and judged by TLC (TraceRT) with the specification's own reader and decoder; narrow-deep token enumerations "
         "(5 tokens x 10-12); the encoder calls of the repository's own tests validated alike",
         "The round trip is model-checked in the specification for every token string up to the bound; the real encoder must "
         "return one of the outcomes the specification allows; for real molecules (datasets, re-spelled) the encoder's output "
         "is decoded by the specification's decoder machine - an oracle that shares no tables with the code - and compared "
         "atom for atom and bond for bond with the specification's reading of the input.", "DESIGN.md section 6 (C03)"),
 "C04": ("as C03 with SameSense (handedness from written neighbour order) and SameMarks invariants; stereo alphabets "
         "enumerated by TLC; stereo-rich molecules re-spelled and judged by TLC trace validation",
         "Chirality parity and cis/trans marks are compared between the specification's reading of the input and the "
         "specification's decoding of the encoder's output, for all enumerated spellings of small stereo systems and for "
         "thousands of re-spellings of stereo-rich molecules.", "DESIGN.md section 6 (C04)"),
 "C05": ("TLC enumeration of aromatic token strings with a nondeterministic Kekule step (any valid pi assignment; failure "
         "only if none exists); allowed outcome sets replayed into selfies.encoder; fused/bridged/cage systems in many atom "
         "orders judged by TLC: the implementation's assignment is read back and verified, rejections checked by search; "
         "the perfect-matching ALGORITHM as its own TLA+ machine (Matching): model-checked on all small graphs, enumerated and "
         "random graphs replayed into find_perfect_matching, its recorded steps trace-validated (contract vs. drift)",
         "Order independence holds in the specification by construction; the code is shown to stay inside the allowed set "
         "for every spelling of every small aromatic system, and its Kekule choice is verified (not trusted) on large systems "
         "such as C60 in hundreds of atom orders.", "DESIGN.md section 6 (C05)"),
 "C06": ("TLC model checking of StrictExact over molecules at/below/above capacities under table families, strict on and "
         "off; vectors replayed through the public API incl. table switches within one process; TLC trace validation of "
         "dataset molecules under the presets",
         "Strict rejection is specified as 'iff some atom exceeds its capacity' and checked as an invariant; the code's "
         "accept/reject decision and output are compared with the specification's for every enumerated molecule under each "
         "table, in one process across table switches (stale verdicts), and strict=False results are compared across tables.",
         "DESIGN.md section 6 (C06)"),
 "C09": ("TLC liveness and two-outcome invariant of the encoder machine; enumerated token strings (ring-closure pathologies, "
         "aromatic bonds on non-aromatic atoms, junk) and fuzz replayed into selfies.encoder under all flag combinations; "
         "accepted fuzz judged by TLC",
         "Totality is an outcome-kind and time-bound observation on every enumerated and fuzzed input (incl. giant and deeply "
         "nested ones); the specification side shows termination and exactly two outcomes.", "DESIGN.md section 6 (C09)"),
 "C10": ("TLC model checking of OutInGrammar / ReencodeFixpoint over the round-trip pipeline; constant-level agreement of the "
         "two atom grammars over a finite atom domain; dataset molecules and index values judged by TLC trace validation",
         "Decodability, standard spelling and the re-encoding fixpoint are invariants of the specification's pipeline and are "
         "compared with the code on every enumerated input; the trace judge re-checks grammar membership of every emitted "
         "symbol and the fixpoint on real molecules.", "DESIGN.md section 6 (C10)"),
 "C11": ("TLC model checking of the API history model (SelfiesAPI: heap with object identity, live table, memo layers) with "
         "CachesCoherent / ResultFresh invariants and negative controls; every history up to the depth bound replayed call by "
         "call into the library; long random histories compared with a fresh interpreter; hash-seed sweep; Apalache: the "
         "cache-coherence / no-aliasing conjunction is inductive on the history-free abstraction ApiAbs (any number of calls)",
         "Every sequence of API calls up to the bound (presets, valid/invalid customs, caller mutations, probe translations) "
         "is explored in the specification and replayed into one interpreter with all observables compared after every call.",
         "DESIGN.md section 6 (C11)"),
 "C12": ("TLC model checking of SelfiesAPI (SetGet, RejectAtomic, NoAliasing, PresetsImmutable) + replay of every history with "
         "caller-side mutation of every returned / passed object (tables passed as several mapping types); wrong-type "
         "arguments; Apalache inductive argument on ApiAbs (negative configurations refuted, incl. the code's aliasing getter)",
         "Aliasing is expressible because objects have identity in the model; the same mutations are performed on the real "
         "returned objects and all getters compared after each step.", "DESIGN.md section 6 (C12)"),
 "C15": ("TLC enumeration of vocabularies x strings x pad lengths x enc types (EncodingUtils) with LabelShape / "
         "OneHotExactlyOne / InverseHolds / RaisesNotWrong invariants; every vector replayed into the four library functions",
         "Exact comparison of return values and exception types for every enumerated combination, plus batch functions, "
         "malformed decoder inputs and private-copy checks.", "DESIGN.md section 6 (C15)"),
 "C17": ("decoder machine carrying attribution (creating symbol, enclosing branches, output token end indices); recorded "
         "attribute=True calls validated by TLC against the property's clauses; encoder clause via the specification's reader "
         "and decoder",
         "The clauses of the property are evaluated by TLC on every recorded attribution list for all strings up to a bound "
         "and for long multi-fragment strings; the translation must equal the attribute=False result.", "DESIGN.md section 6 (C17)"),
 "C19": ("TLC model checking of all interleavings of the shared-cache micro-actions (Threads) with a negative control; model "
         "schedules forced onto real threads at guarded hooks; line-level preemption of every executed line in freshly forked "
         "interpreters; free-running stress",
         "Exhaustive over interleavings of the shared-state accesses the model names (design), conformance of the code's "
         "cache protocol to the model on every model schedule, and bounded-preemption exploration of the real code at line "
         "granularity with follow-up probes that expose damaged shared state.", "DESIGN.md section 6 (C19)"),
})

checks = []
for pid in sorted(CHECKS):
    tech, text, ref = CHECKS[pid]
    checks.append({
        "property_id": pid,
        "quick_cmd": "./check %s --tier quick" % pid,
        "thorough_cmd": "./check %s --tier thorough" % pid,
        "evidence_file": "/verif/evidence/%s.json" % pid,
        "replay_cmd_template": "./check %s --replay {path}" % pid,
        "engine": "tla-mc-gen-replay-trace",
        "level_claimed": {"category": "model_checking", "text": text, "design_ref": ref},
        "level_note": TRUST,
        "technique": tech,
    })

try:
    commits = subprocess.check_output(["git", "-C", "/repo", "log", "--format=%h %s", "1fcf2d8..HEAD"]).decode().split("\n")
except Exception:
    commits = []
hook_commits = [c.split()[0] for c in commits if c and c.split(" ", 1)[1].startswith("verification hooks")]

manifest = {
    "version": 1,
    "setup_cmd": "./setup.sh",
    "hooks": {
        "guard": "SELFIES_VERIF",
        "enable": "environment variable SELFIES_VERIF=1 (set by ./check); pure Python, nothing to build",
        "baseline_off_cmd": "cd /repo && env -u SELFIES_VERIF /venv/bin/python -m pytest -ra -q -p no:cacheprovider --timeout=900 --continue-on-collection-errors",
        "source_commits": hook_commits,
        "add_only": True,
    },
    "engines": [
        {"name": "tla-mc-gen-replay-trace", "path": "/verif/harness", "serves_properties": sorted(CHECKS),
         "kind_free_text": "explicit TLA+ specification (/verif/spec) checked by TLC; TLC-generated behaviours replayed "
                           "into the implementation; recorded implementation calls validated by TLC trace specifications"}
    ],
    "checks": checks,
    "not_applicable": [{"property_id": p["id"], "reason": "check not built yet (work in progress; DESIGN.md section 10)"}
                       for p in props if p["id"] not in CHECKS],
    "notes": "All checks: exit 0 held / 1 VIOLATION / 2 machinery failure. Known findings: /verif/known_findings.json.",
}
json.dump(manifest, open(os.path.join(VERIF, "MANIFEST.json"), "w"), indent=1)
print("checks:", len(checks), "not_applicable:", len(manifest["not_applicable"]))
