"""Regenerates /verif/MANIFEST.json from the table below (kept in one place so it stays valid)."""
import json
import os
import subprocess

VERIF = os.path.dirname(os.path.dirname(os.path.abspath(__file__)))
props = [json.loads(l) for l in open(os.path.join(VERIF, "properties.jsonl"))]

TRUST = ("TLC 1.8 and the TLA+ specification in /verif/spec as the oracle; /venv/bin/python importing selfies from "
         "/repo's working tree; enumeration bounds and alphabets as reported in the evidence file; beyond the bounds "
         "the claim rests on validated traces (sampling).")

CHECKS = {
 "C01": ("TLC model checking of the decoder machine (C01 clauses as invariants in every state, write.parse=id) + "
         "TLC-generated vectors replayed into selfies.decoder + recorded decoder calls validated by TLC (TraceDec)",
         "The decoder specification (Derive/RingPass/SmilesWriter) is model-checked exhaustively over all symbol strings "
         "up to a length bound for several alphabets and tables with valence, well-formedness, label and read-back "
         "invariants in every state; every terminal behaviour is replayed into the real decoder and long / adversarial "
         "real executions (hundreds to thousands of symbols, >99 rings) are validated step by step against the same "
         "machine, so an implementation change that produces a molecule or spelling the specification does not allow is "
         "seen, and the specification itself is shown to have the property.", "DESIGN.md section 6 (C01)"),
 "C02": ("TLC-generated behaviours of the decoder specification (all strings up to a bound, every rule in every state) "
         "replayed into selfies.decoder; recorded calls validated by TLC trace checking",
         "Exact agreement (string, else molecule read back by the specification's SMILES reader) between the "
         "implementation and an independent TLA+ rendering of the derivation grammar on every enumerated string and "
         "on long sampled strings; rejection kind compared in the precise region.", "DESIGN.md section 6 (C02)"),
 "C07": ("TLC enumeration of constraint tables (TableSpace) with alphabet invariants, replayed into "
         "set_semantic_constraints/get_semantic_robust_alphabet; decoder machine over the robust alphabet model-checked "
         "and trace-validated",
         "Acceptance of tables and the returned alphabet are compared with the specification for every enumerated table "
         "(set equality); strings over the alphabet are model-checked never to reach an invalid symbol and to keep the "
         "C01 invariants, and real decodes of long random strings over the returned alphabet are trace-validated.",
         "DESIGN.md section 6 (C07)"),
 "C08": ("TLC liveness (termination under weak fairness) and two-outcome totality of the text->lexer->decoder "
         "specification; enumerated and fuzzed text replayed into selfies.decoder under all flag combinations; "
         "TLC trace validation of fuzz outcomes",
         "The specification terminates with exactly two outcomes on all texts up to the bound; the code is driven with "
         "every enumerated text, symbol-level junk, fuzz (incl. non-ASCII) and very large / deep inputs under the four "
         "flag combinations and must return or raise DecoderError within a time bound, leaving the table untouched.",
         "DESIGN.md section 6 (C08)"),
 "C13": ("TLC model checking of NopInvisible (self-composition with the [nop]-free run) over all strings with [nop] "
         "up to a bound; vectors replayed twice into selfies.decoder; TLC trace validation of long padded strings",
         "2-safety by comparing, at every terminal state, with the specification's run on the stripped string; both "
         "spellings are replayed into the code; long random paddings and the encoding utilities' padding are traced.",
         "DESIGN.md section 6 (C13)"),
 "C14": ("TLC model checking of the lexer specification (Split/Scan/WellFormed invariants) over all texts up to a "
         "bound; vectors replayed into split_selfies/len_selfies/get_alphabet_from_selfies; token streams trace-validated",
         "Exhaustive over short texts on a 4-character alphabet, exact on the well-formed region, totality elsewhere.",
         "DESIGN.md section 6 (C14)"),
 "C16": ("TLC constant-level evaluation (ASSUMEs over all n < 16^3 and all symbol triples) + ImplTables equality + "
         "TLC trace validation of decoder calls with every index-symbol tuple",
         "The positional code is checked exhaustively at constant level in the specification, the implementation's "
         "INDEX_ALPHABET is compared with the documented order, and ring/branch placement for index tuples is validated "
         "through the public decoder.", "DESIGN.md section 6 (C16)"),
 "C18": ("TLC model checking of CompatIsModern over all strings mixing modern and legacy symbols up to a bound, both "
         "flag values; vectors replayed into selfies.decoder; constant-level Modernize obligations; traces",
         "The compatibility mapping is specified from the CHANGELOG and checked as a lock-step equality in the "
         "specification; the code is compared on every enumerated string with both flag values and on random mixes.",
         "DESIGN.md section 6 (C18)"),
}

checks = []
for pid in sorted(CHECKS):
    tech, text, ref = CHECKS[pid]
    checks.append({
        "property_id": pid,
        "quick_cmd": "./check %s --tier quick" % pid,
        "thorough_cmd": "./check %s --tier thorough" % pid,
        "evidence_file": "/verif/evidence/%s.json" % pid,
        "replay_cmd_template": "./check %s --replay {path}" % pid,
        "engine": "tla-mc-gen-replay-trace",
        "level_claimed": {"category": "model_checking", "text": text, "design_ref": ref},
        "level_note": TRUST,
        "technique": tech,
    })

try:
    commits = subprocess.check_output(["git", "-C", "/repo", "log", "--format=%h %s", "1fcf2d8..HEAD"]).decode().split("\n")
except Exception:
    commits = []
hook_commits = [c.split()[0] for c in commits if c and "hook" in c.lower() and not c.split(" ", 1)[1].startswith("fix:")]

manifest = {
    "version": 1,
    "setup_cmd": "./setup.sh",
    "hooks": {
        "guard": "SELFIES_VERIF",
        "enable": "environment variable SELFIES_VERIF=1 (set by ./check); pure Python, nothing to build",
        "baseline_off_cmd": "cd /repo && env -u SELFIES_VERIF /venv/bin/python -m pytest -ra -q -p no:cacheprovider --timeout=900 --continue-on-collection-errors",
        "source_commits": hook_commits,
        "add_only": True,
    },
    "engines": [
        {"name": "tla-mc-gen-replay-trace", "path": "/verif/harness", "serves_properties": sorted(CHECKS),
         "kind_free_text": "explicit TLA+ specification (/verif/spec) checked by TLC; TLC-generated behaviours replayed "
                           "into the implementation; recorded implementation calls validated by TLC trace specifications"}
    ],
    "checks": checks,
    "not_applicable": [{"property_id": p["id"], "reason": "check not built yet (work in progress; DESIGN.md section 10)"}
                       for p in props if p["id"] not in CHECKS],
    "notes": "All checks: exit 0 held / 1 VIOLATION / 2 machinery failure. Known findings: /verif/known_findings.json.",
}
json.dump(manifest, open(os.path.join(VERIF, "MANIFEST.json"), "w"), indent=1)
print("checks:", len(checks), "not_applicable:", len(manifest["not_applicable"]))
