"""./check <ID> [--tier quick|thorough] [--replay path]"""
import argparse
import os
import sys
import traceback

sys.path.insert(0, os.path.dirname(os.path.abspath(__file__)))
from common import MachineryError  # noqa: E402


def registry():
    import checks_dec
    reg = {}
    for mod in (checks_dec,):
        for name in dir(mod):
            if name.startswith("check_C"):
                reg[name[6:]] = getattr(mod, name)
    for modname in ("checks_enc", "checks_api", "checks_utils", "checks_threads"):
        try:
            mod = __import__(modname)
        except ImportError:
            continue
        for name in dir(mod):
            if name.startswith("check_C"):
                reg[name[6:]] = getattr(mod, name)
    return reg


def main():
    ap = argparse.ArgumentParser()
    ap.add_argument("pid")
    ap.add_argument("--tier", default=os.environ.get("VERIF_TIER", "quick"), choices=["quick", "thorough"])
    ap.add_argument("--replay", default=None)
    a = ap.parse_args()
    reg = registry()
    if a.pid not in reg:
        print("unknown property %s (have: %s)" % (a.pid, ", ".join(sorted(reg))))
        return 2
    try:
        if a.replay:
            import replay
            return replay.replay(a.pid, a.replay)
        return reg[a.pid](a.tier)
    except MachineryError as e:
        print("MACHINERY-FAILURE property=%s: %s" % (a.pid, e))
        return 2
    except Exception:
        traceback.print_exc()
        print("MACHINERY-FAILURE property=%s: unexpected exception in the harness" % a.pid)
        return 2


if __name__ == "__main__":
    sys.exit(main())
