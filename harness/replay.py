"""./check <ID> --replay <file>: re-run the single case stored in a replay file against /repo's working tree."""
import json

import dec_engine as de


def replay(pid, path):
    data = json.load(open(path))
    case = data.get("case", {})
    print("replaying: " + data.get("description", "")[:400])
    if "tokens" in case or ("input" in case and "table" in case and "smiles" not in case):
        toks = case.get("tokens") or de.split_tokens(case["input"])
        table = case.get("table", "default")
        compat = bool(case.get("compatible", False))
        recs = de.record_decoder([toks], table, compat)
        _, events = de.validate_decoder_trace("replay", recs, table, compat, nprocs=1)
        bad = [e for e in events if e.get("ev") in ("MISMATCH", "CLAUSE")]
        print("implementation now returns: %s %r" % (recs[0]["kind"], recs[0]["out"][:300]))
        if bad:
            print("VIOLATION property=%s replay=%s" % (pid, path))
            print("  " + json.dumps(bad[0])[:400])
            return 1
        print("OK: the case no longer violates the property")
        return 0
    if "smiles" in case:
        table = case.get("table", "default")
        strict = bool(case.get("strict", True))
        recs = de.record_roundtrip([case["smiles"]], table, strict)
        _, events = de.validate_roundtrip_trace("replay", recs, table, nprocs=1)
        bad = [e for e in events if e.get("ev") == "MISMATCH"]
        print("implementation now returns: %s %r -> %r" % (recs[0]["kind"], recs[0]["sel"][:200], recs[0]["dec"][:200]))
        if bad:
            print("VIOLATION property=%s replay=%s" % (pid, path))
            print("  " + json.dumps(bad[0])[:400])
            return 1
        print("OK: the case no longer violates the property")
        return 0
    if "history" in case:
        import checks_api
        sf = de.selfies_mod()
        r = checks_api.replay_history(sf, case["history"], checks_api.CUSTOMS, checks_api.DPROBES, checks_api.EPROBES,
                                      kind=case.get("table_kind", 0))
        sf.set_semantic_constraints("default")
        from common import load_known_findings
        if r is not None and r[2] and case["history"][r[0]]["op"] == "get_alphabet" and any(
                f.get("signature") == "api:mutation-of-returned-robust-alphabet-visible-to-later-calls" for f in load_known_findings()):
            print("KNOWN-FINDING: property=C12 the returned robust alphabet is the cached set (see known_findings.json)")
            return 0
        if r is not None and pid == "C11" and case["history"][r[0]]["op"] not in ("decode", "decode_compat", "encode", "encode_strict"):
            print("OK for C11: the deviating step is a configuration call (C12's business)")
            return 0
        if r is not None:
            print("VIOLATION property=%s replay=%s" % (pid, path))
            print("  step %d: %s" % (r[0] + 1, r[1]))
            return 1
        print("OK: the history is now reproduced exactly")
        return 0
    if "graph" in case:
        import match_engine as me
        with me.Recorder() as rec:
            try:
                with de.time_limit(20.0):
                    rec.call([list(a) for a in case["graph"]])
            except BaseException as e:
                print("VIOLATION property=%s replay=%s" % (pid, path))
                print("  find_perfect_matching raised %s" % type(e).__name__)
                return 1
        _, events = me.validate_match_trace("replay", rec.records, nparts=1)
        bad = [e for e in events if e.get("ev") == "CONTRACT"]
        print("implementation now returns: %r" % (rec.records[0]["ev"][-1],))
        if bad:
            print("VIOLATION property=%s replay=%s" % (pid, path))
            print("  " + json.dumps(bad[0])[:400])
            return 1
        print("OK: the case no longer violates the property")
        return 0
    print("this replay file has no single-case form; re-running the quick check instead")
    import main
    return main.registry()[pid]("quick")
