"""Decoder-side engines: MC (invariants), GEN (vector emission) and REPLAY into selfies.decoder."""
import json
import os
import sys
import time

from common import (log, scratch, run_tlc, run_parallel, tla_set, tla_seq, tla_table, tla_str,
                    MachineryError, NCPU, REPO, tlc_ok)

PRESETS = {"default": "DefaultTable", "octet_rule": "OctetTable", "hypervalent": "HypervalentTable"}

C01_INVARIANTS = ["InvValence", "InvCapIsTable", "InvStateBound", "InvNoSelfBond", "InvNoDoubleEdge",
                  "InvOrdersLegal", "InvChainForward", "InvLabelsLegal", "InvLabelsPaired",
                  "InvRingsClosed", "InvBalanced", "InvNoEmptyBranch", "InvAllWritten", "InvAdjMeaning", "InvBcMeaning", "InvFastEquiv"]


def table_expr(table):
    if isinstance(table, str):
        return PRESETS[table]
    return tla_table(table)


def dec_params(table, compat=False, maxlabel=99, known=None, gen=True, alphabet=(), maxlen=0, first=None,
               allow_empty=True, trace=False, extra="", raw=None, strict=True, second=None):
    """Text of a generated DecParams.tla (plain definitions: evaluated once by TLC)."""
    alphabet = list(alphabet)
    first = list(first) if first is not None else alphabet
    lines = ["---- MODULE DecParams ----", "EXTENDS Tables, Naturals, Sequences, Json, IOUtils",
             "Table == %s" % table_expr(table),
             "Compat == %s" % ("TRUE" if compat else "FALSE"),
             "MaxLabel == %d" % maxlabel,
             "Gen == %s" % ("TRUE" if gen else "FALSE"),
             "Alphabet == %s" % tla_set(alphabet),
             "MaxLen == %d" % maxlen,
             "Input == <<>>",
             "FirstSyms == %s" % tla_set(first),
             "SecondSyms == %s" % tla_set(list(second) if second is not None else alphabet),
             "AllowEmpty == %s" % ("TRUE" if allow_empty else "FALSE"),
             "Strict == %s" % ("TRUE" if strict else "FALSE")]
    if raw:
        chars, n, rfirst = raw
        lines += ["RawChars == %s" % tla_set(chars), "RawLen == %d" % n, "RawFirst == %s" % tla_set(rfirst)]
    else:
        lines += ['RawChars == {"["}', "RawLen == 1", "RawFirst == RawChars"]
    if trace:
        lines.append("Tr == JsonDeserialize(IOEnv.TRACE_FILE)")
        lines.append("KnownSyms == UNION {{Tr[i].inp[j] : j \\in 1..Len(Tr[i].inp)} : "
                     "i \\in {k \\in 1..Len(Tr) : \"inp\" \\in DOMAIN Tr[k]}}")
    else:
        lines.append("Tr == <<>>")
        lines.append("KnownSyms == %s" % tla_set(known if known is not None else alphabet))
    if extra:
        lines.append(extra)
    lines.append("====")
    return "\n".join(lines) + "\n"


def mc_module(name, extends="DecodeCall", extra_defs=""):
    return "---- MODULE %s ----\nEXTENDS %s\n%s\n====\n" % (name, extends, extra_defs)


def mc_cfg(spec="FastSpec", invariants=(), view=False, emit=None, properties=(), constraint=None,
           postcondition=None):
    lines = ["SPECIFICATION " + spec]
    if postcondition:
        lines.append("POSTCONDITION " + postcondition)
    for inv in invariants:
        lines.append("INVARIANT " + inv)
    if emit:
        lines.append("INVARIANT " + emit)
    for p in properties:
        lines.append("PROPERTY " + p)
    if view:
        lines.append("VIEW View")
    if constraint:
        lines.append("CONSTRAINT " + constraint)
    lines.append("CHECK_DEADLOCK FALSE")
    return "\n".join(lines) + "\n"


def partitions(alphabet, nparts):
    """Split the first-symbol choice over at most nparts processes."""
    nparts = max(1, min(nparts, len(alphabet)))
    parts = [[] for _ in range(nparts)]
    for i, s in enumerate(alphabet):
        parts[i % nparts].append(s)
    return parts


def run_decoder_tlc(name, alphabet, table, maxlen, compat=False, maxlabel=99, emit=False,
                    invariants=(), view=False, spec="FastSpec", coverage=False, nparts=None,
                    timeout=3000, properties=(), extends="DecodeCall", emit_name="Emit",
                    extra_defs="", heap="2g", fastjit=False, raw=None, strict=True, deep=False):
    """Run one configuration, partitioned over parallel single-worker TLC processes.
    Returns (list of TlcResult, vectors)."""
    nparts = nparts or min(NCPU, len(alphabet) if raw is None else len(raw[0]))
    if coverage:
        nparts = 1
    work = scratch("dec_%s_" % name)
    parts = partitions(alphabet if raw is None else raw[0], nparts)
    seconds = [None] * len(parts)
    if deep and raw is None and not coverage and len(alphabet) < NCPU:
        # few symbols, long strings: split on the first two symbols (strings of one symbol recur in several
        # processes; they are deduplicated with the vectors)
        k = max(1, NCPU // len(alphabet))
        parts, seconds = [], []
        for a in alphabet:
            for sec in partitions(alphabet, k):
                parts.append([a])
                seconds.append(sec)
    jobs = []
    for pi, first in enumerate(parts):
        mod = "MC_%s_%d" % (name, pi)
        sub = os.path.join(work, "p%d" % pi)
        os.makedirs(sub)
        with open(os.path.join(sub, "DecParams.tla"), "w") as f:
            f.write(dec_params(table, compat=compat, maxlabel=maxlabel, alphabet=alphabet, maxlen=maxlen,
                               first=(first if raw is None else None), allow_empty=(pi == 0),
                               known=(alphabet if raw is None else []), second=seconds[pi],
                               raw=(None if raw is None else (raw[0], raw[1], first)), strict=strict))
        with open(os.path.join(sub, mod + ".tla"), "w") as f:
            f.write(mc_module(mod, extends=extends, extra_defs=extra_defs))
        cfg = mc_cfg(spec=("CovSpec" if coverage else spec),
                     invariants=list(invariants) + (["CovCount"] if coverage else []), view=view,
                     emit=(emit_name if emit else None), properties=properties,
                     postcondition=("CovReport" if coverage else None))
        extra = []
        out_path = os.path.join(sub, mod + ".out")

        def job(mod=mod, cfg=cfg, extra=extra, out_path=out_path, sub=sub):
            r = run_tlc(sub, mod, cfg, workers=1, extra=extra, timeout=timeout,
                        stdout_path=out_path, keep_json=(emit or coverage), heap=heap, fastjit=fastjit)
            if coverage:
                for e in r.printed:
                    if isinstance(e, dict) and e.get("ev") == "COVERAGE":
                        for nm, c in zip(e["names"], e["counts"]):
                            r.coverage[nm] = (c, c)
                r.printed = [e for e in r.printed if not (isinstance(e, dict) and e.get("ev") == "COVERAGE")]
            return r
        jobs.append(job)
    log("tlc %s: %d processes, <=%d symbols" % (name, len(jobs), maxlen))
    results = run_parallel(jobs, max_procs=NCPU)
    log("tlc %s done: %d states" % (name, sum(r.distinct for r in results)))
    vectors = []
    for r in results:
        tlc_ok(r, name)
        vectors.extend(r.printed)
        r.printed = []
    if deep:
        seen, uniq = set(), []
        for v in vectors:
            key = tuple(v["inp"]) if isinstance(v, dict) and "inp" in v else None
            if key is None or len(key) > 1 or key not in seen:
                uniq.append(v)
                if key is not None:
                    seen.add(key)
        vectors = uniq
    return results, vectors


# --------------------------------------------------------------------------
# REPLAY into the real decoder
# --------------------------------------------------------------------------

_sf = None


def selfies_mod():
    """The implementation under test, imported from /repo's working tree."""
    global _sf
    if _sf is None:
        if REPO not in sys.path:
            sys.path.insert(0, REPO)
        os.environ.setdefault("SELFIES_VERIF", "1")
        import selfies
        if not os.path.abspath(selfies.__file__).startswith(os.path.abspath(REPO)):
            raise MachineryError("selfies imported from %s, not from %s" % (selfies.__file__, REPO))
        _sf = selfies
    return _sf


def set_table(table):
    sf = selfies_mod()
    sf.set_semantic_constraints(table if isinstance(table, str) else dict(table))


class CallTimeout(BaseException):
    """Raised by the alarm when a library call exceeds its time budget (non-termination is a violation)."""


def _on_alarm(signum, frame):
    raise CallTimeout()


CALL_BUDGET = float(os.environ.get("VERIF_CALL_BUDGET", "120"))


class time_limit:
    """Bound one library call (main thread only; a no-op elsewhere)."""

    def __init__(self, seconds=None):
        self.seconds = seconds or globals()["CALL_BUDGET"]
        self.armed = False

    def __enter__(self):
        import signal
        import threading
        if threading.current_thread() is threading.main_thread():
            self.old = signal.signal(signal.SIGALRM, _on_alarm)
            signal.setitimer(signal.ITIMER_REAL, self.seconds)
            self.armed = True
        return self

    def __exit__(self, *a):
        import signal
        if self.armed:
            signal.setitimer(signal.ITIMER_REAL, 0)
            signal.signal(signal.SIGALRM, self.old)
        return False


def call_decoder(s, compat=False, attribute=False):
    """Returns (kind, value) with kind in ok / DecoderError / <other exception type> / Timeout."""
    import warnings
    sf = selfies_mod()
    try:
        with time_limit():
            with warnings.catch_warnings():
                warnings.simplefilter("ignore")
                r = sf.decoder(s, compatible=compat, attribute=attribute)
        return ("ok", r)
    except sf.DecoderError:
        return ("DecoderError", "")
    except CallTimeout:
        return ("Timeout(did not terminate within %gs)" % CALL_BUDGET, "")
    except Exception as e:        # any other type is a totality violation (C08)
        return (type(e).__name__, "")


def _replay_chunk(args):
    vectors, table, compat = args
    set_table(table)
    mism = []
    try:
        for v in vectors:
            s = "".join(v["inp"])
            kind, val = call_decoder(s, compat)
            if v.get("fuzzy"):
                ok = (kind == "DecoderError") or (kind == v["kind"] and val == v["out"])
            else:
                ok = (kind == v["kind"] and val == v["out"])
            if not ok:
                mism.append((v, (kind, val)))
    finally:
        set_table("default")
    return mism


def pmap(fn, chunks):
    """Run fn over chunks in forked worker processes (the implementation is imported in each)."""
    import gc
    import multiprocessing as mp
    from concurrent.futures import ProcessPoolExecutor
    from concurrent.futures.process import BrokenProcessPool
    if len(chunks) <= 1:
        return [fn(c) for c in chunks]
    # forked workers share the parent's heap copy-on-write; a collector pass in a worker would touch (and so copy)
    # every container of a multi-gigabyte parent: freeze the heap for the duration, and cap the number of workers
    # by the memory that is left should they copy it all the same
    nproc = min(NCPU, len(chunks))
    try:
        rss = int(open("/proc/self/statm").read().split()[1]) * os.sysconf("SC_PAGE_SIZE")
        avail = [int(l.split()[1]) * 1024 for l in open("/proc/meminfo") if l.startswith("MemAvailable")][0]
        if rss > (1 << 30):
            nproc = max(2, min(nproc, int(avail * 0.6 // rss)))
    except Exception:
        pass
    gc.collect()
    gc.freeze()
    try:
        with ProcessPoolExecutor(max_workers=nproc, mp_context=mp.get_context("fork")) as ex:
            return list(ex.map(fn, chunks))
    except BrokenProcessPool:
        raise MachineryError("a replay worker process died (out of memory?)")
    finally:
        gc.unfreeze()


def chunked(seq, n):
    n = max(1, n)
    k = (len(seq) + n - 1) // n if seq else 1
    return [seq[i:i + k] for i in range(0, len(seq), k)] or [[]]


def replay_decoder_vectors(vectors, table, compat=False):
    """Replay spec vectors into the real decoder; returns mismatches [(vector, impl outcome)]."""
    selfies_mod()
    nchunks = NCPU if len(vectors) > 20000 else 1
    out = []
    for part in pmap(_replay_chunk, [(c, table, compat) for c in chunked(vectors, nchunks)]):
        out.extend(part)
    return out


# --------------------------------------------------------------------------
# RECORD -> TRACE : recorded decoder calls validated by TLC (TraceDec.tla)
# --------------------------------------------------------------------------

def split_tokens(s):
    """Tokens of a well-formed SELFIES string: bracketed symbols and dots (harness-side, trivial)."""
    toks, i = [], 0
    while i < len(s):
        if s[i] == ".":
            toks.append(".")
            i += 1
        else:
            j = s.index("]", i)
            toks.append(s[i:j + 1])
            i = j + 1
    return toks


def tla_value(v):
    if isinstance(v, bool):
        return "TRUE" if v else "FALSE"
    if isinstance(v, int):
        return str(v)
    if isinstance(v, str):
        return tla_str(v)
    if isinstance(v, (list, tuple)):
        return "<<" + ", ".join(tla_value(x) for x in v) + ">>"
    if isinstance(v, dict):
        return tla_record(v)
    raise MachineryError("cannot render %r" % (v,))


def tla_record(rec):
    return "[" + ", ".join("%s |-> %s" % (k, tla_value(v)) for k, v in rec.items()) + "]"


def api_noise(k=0):
    """Calls of the public API that must not change anything (the table in force is re-installed unchanged):
    interleaved with the recorded calls so that a side effect of one API function on another shows up."""
    sf = selfies_mod()
    cur = sf.get_semantic_constraints()
    a = sf.get_semantic_robust_alphabet()
    if k % 3 == 0:
        sf.set_semantic_constraints(dict(cur))          # same table again (flushes the memo layers)
        sf.get_semantic_robust_alphabet()
    sf.get_preset_constraints(("default", "octet_rule", "hypervalent")[k % 3])
    s = "[C][=O].[nop][N]"
    list(sf.split_selfies(s))
    sf.len_selfies(s)
    sf.get_alphabet_from_selfies([s])
    vocab = {"[C]": 0, "[=O]": 1, ".": 2, "[nop]": 3, "[N]": 4}
    sf.selfies_to_encoding(s, vocab, pad_to_len=7, enc_type="both")
    sf.encoding_to_selfies([0, 1, 3], {i: t for t, i in vocab.items()}, "label")
    return len(a)


def record_decoder(inputs, table, compat=False):
    """Drive the real decoder; one record per call, logged at the call's return / raise."""
    set_table(table)
    recs = []
    try:
        for n_, toks in enumerate(inputs):
            if n_ % 40 == 7:
                api_noise(n_ // 40)
            kind, val = call_decoder("".join(toks), compat)
            if n_ % 5 == 0 and call_decoder("".join(toks), compat) != (kind, val):      # purity: same call again
                kind = "NotRepeatable(%s)" % kind
            recs.append({"inp": list(toks), "kind": kind, "out": val})
    finally:
        set_table("default")
    return recs


def validate_decoder_trace(name, records, table, compat=False, maxlabel=99, nprocs=None, timeout=3000,
                           module="TraceDec", extra_consts=""):
    """Returns (tlc results, events) where events are the parsed PrintT records with global tids."""
    import json as _json
    if not records:
        return [], []
    nprocs = nprocs or NCPU
    nprocs = max(1, min(nprocs, len(records)))
    work = scratch("trace_%s_" % name)
    # balance chunks by total token count
    def size(r):
        return len(r["inp"]) if "inp" in r else len(r["raw"]) // 3
    order = sorted(range(len(records)), key=lambda i: -size(records[i]))
    chunks = [[] for _ in range(nprocs)]
    loads = [0] * nprocs
    for i in order:
        k = loads.index(min(loads))
        chunks[k].append(i)
        loads[k] += size(records[i]) + 5
    jobs = []
    for ci, idxs in enumerate(chunks):
        if not idxs:
            continue
        idxs.sort()
        mod = "MC_%s_%d" % (name, ci)
        sub = os.path.join(work, "p%d" % ci)
        os.makedirs(sub)
        tf = os.path.join(sub, "trace.json")
        with open(tf, "w") as f:
            _json.dump([records[i] for i in idxs], f, ensure_ascii=True)
        with open(os.path.join(sub, "DecParams.tla"), "w") as f:
            f.write(dec_params(table, compat=compat, maxlabel=maxlabel, gen=False, trace=True, extra=extra_consts))
        with open(os.path.join(sub, mod + ".tla"), "w") as f:
            f.write(mc_module(mod, extends=module))
        cfg = "SPECIFICATION Spec\nCHECK_DEADLOCK FALSE\n"

        def job(mod=mod, cfg=cfg, sub=sub, idxs=idxs, tf=tf):
            r = run_tlc(sub, mod, cfg, workers=1, timeout=timeout, heap="3g", env_extra={"TRACE_FILE": tf})
            r.idxs = idxs
            return r
        jobs.append(job)
    log("trace %s: %d records in %d processes" % (name, len(records), len(jobs)))
    results = run_parallel(jobs, max_procs=NCPU)
    log("trace %s done: %d steps, slowest %.1fs" % (name, sum(r.generated for r in results), max(r.wall for r in results)))
    events = []
    for r in results:
        tlc_ok(r, name)
        done = [e for e in r.printed if e.get("ev") == "DONE"]
        if not done or done[0]["n"] != len(r.idxs):
            raise MachineryError("trace validation did not consume the whole trace (%s)\n%s" % (name, r.log[-2000:]))
        for e in r.printed:
            if "tid" in e:
                e = dict(e)
                e["tid"] = r.idxs[e["tid"] - 1]
            events.append(e)
    return results, events


# --------------------------------------------------------------------------
# constant-level obligations (ASSUMEs of ConstChecks.tla) and implementation tables
# --------------------------------------------------------------------------

def run_const_checks(extra_module_text=None, name="ConstChecks"):
    """Evaluate the ASSUMEs of spec/ConstChecks.tla (or of a generated module extending it).
    Returns (TlcResult, list of failed assumption texts)."""
    import re as _re
    from common import SPEC_DIR
    work = scratch("const_")
    if extra_module_text:
        mod = name
        src = extra_module_text
    else:
        mod = "ConstChecks"
        src = open(os.path.join(SPEC_DIR, "ConstChecks.tla")).read()
    with open(os.path.join(work, mod + ".tla"), "w") as f:
        f.write(src)
    r = run_tlc(work, mod, "SPECIFICATION Spec\n", workers=1, timeout=600, fastjit=True)
    failed = []
    lines = src.split("\n")
    for e in r.errors:
        m = _re.search(r"Assumption line (\d+), col \d+ to line \d+, col \d+ of module (\w+) is false", e)
        if m:
            ln = int(m.group(1))
            failed.append(lines[ln - 1].strip() if m.group(2) == mod and ln <= len(lines) else e)
    if not r.completed and not failed:
        raise MachineryError("constant-level check did not complete:\n" + r.log[-2000:])
    return r, failed


def impl_tables_module():
    """ImplTables.tla: the data tables of the working tree, compared with the specification's."""
    sf = selfies_mod()
    out = ["---- MODULE ImplTables ----", "EXTENDS Constraints, SmilesReader"]
    asserts = []
    try:
        from selfies import constants as C
        out.append("ImplIndex == %s" % tla_seq(list(C.INDEX_ALPHABET)))
        asserts.append(("index alphabet", "ImplIndex = INDEX_ALPHABET"))
        out.append("ImplElements == %s" % tla_set(sorted(C.ELEMENTS)))
        asserts.append(("elements", "ImplElements = ELEMENTS"))
        out.append("ImplOrganic == %s" % tla_set(sorted(C.ORGANIC_SUBSET)))
        asserts.append(("organic subset", "ImplOrganic = ORGANIC"))
        out.append("ImplAromatic == %s" % tla_set(sorted(C.AROMATIC_SUBSET)))
        asserts.append(("aromatic subset", "ImplAromatic = AROMATIC_SUBSET"))
        for el, vals in sorted(C.AROMATIC_VALENCES.items()):
            asserts.append(("aromatic valences of %s" % el,
                            "AroValences(%s) = {%s}" % (tla_str(el), ", ".join(str(v) for v in vals))))
    except Exception as e:      # refactored away: skipped, the behavioural engines still cover it
        out.append("\\* constants not extractable: %s" % type(e).__name__)
    try:
        for nm, tl in (("default", "DefaultTable"), ("octet_rule", "OctetTable"), ("hypervalent", "HypervalentTable")):
            t = sf.get_preset_constraints(nm)
            out.append("Impl_%s == %s" % (nm, tla_table(t)))
            asserts.append(("preset %s" % nm, "Impl_%s = %s" % (nm, tl)))
    except Exception as e:
        out.append("\\* presets not extractable: %s" % type(e).__name__)
    try:
        from selfies import grammar_rules as G
        out.append("ImplBranch == %s" % tla_set(sorted(G._PROCESS_BRANCH_CACHE)))
        asserts.append(("branch symbols", "ImplBranch = BranchSymbolSet"))
        out.append("ImplRing == %s" % tla_set(sorted(G._PROCESS_RING_CACHE)))
        asserts.append(("ring symbols", "ImplRing = AllRingSet"))
    except Exception as e:
        out.append("\\* symbol tables not extractable: %s" % type(e).__name__)
    names = []
    for i, (what, expr) in enumerate(asserts):
        out.append("A%d == %s" % (i, expr))
        out.append("ASSUME A%d" % i)
        names.append(what)
    out += ["VARIABLE x", "Init == x = 0", "Next == UNCHANGED x", "Spec == Init /\\ [][Next]_x", "===="]
    return "\n".join(out) + "\n", names


# --------------------------------------------------------------------------
# table enumeration (TableSpace.tla)
# --------------------------------------------------------------------------

def run_table_space(keypool, cappool, maxkeys, timeout=1200):
    work = scratch("tables_")
    with open(os.path.join(work, "TableParams.tla"), "w") as f:
        f.write("---- MODULE TableParams ----\nEXTENDS Integers\nKeyPool == %s\nCapPool == {%s}\nMaxKeys == %d\n====\n"
                % (tla_set(keypool), ", ".join(str(c) for c in cappool), maxkeys))
    with open(os.path.join(work, "MC_tables.tla"), "w") as f:
        f.write("---- MODULE MC_tables ----\nEXTENDS TableSpace\n====\n")
    cfg = ("SPECIFICATION Spec\nINVARIANT AlphabetInGrammar\nINVARIANT AlphabetContents\nINVARIANT TableEmit\n"
           "CHECK_DEADLOCK FALSE\n")
    r = run_tlc(work, "MC_tables", cfg, workers=NCPU, timeout=timeout, heap="6g",
                stdout_path=os.path.join(work, "out.txt"))
    tlc_ok(r, "tables")
    vectors = []
    for v in r.printed:
        vectors.append({"table": v["table"] if isinstance(v["table"], dict) else {}, "valid": v["valid"],
                        "alphabet": list(v["alphabet"])})
    r.printed = []
    return r, vectors


# --------------------------------------------------------------------------
# encoder side: recording round trips and validating them (TraceRT.tla)
# --------------------------------------------------------------------------

def call_encoder(s, strict=True, attribute=False):
    sf = selfies_mod()
    try:
        with time_limit():
            return ("ok", sf.encoder(s, strict=strict, attribute=attribute), "")
    except CallTimeout:
        return ("Timeout(did not terminate within %gs)" % CALL_BUDGET, "", "")
    except sf.EncoderError as e:
        msg = str(e)
        why = ("parse" if "failed to parse" in msg else "kekulize" if "kekulization failed" in msg
               else "constraints" if "semantic constraints" in msg else "other")
        return ("EncoderError", "", why)
    except Exception as e:
        return (type(e).__name__, "", "")


def record_roundtrip(smiles_list, table, strict=True):
    set_table(table)
    recs = []
    try:
        for n_, smi in enumerate(smiles_list):
            if n_ % 40 == 3:
                api_noise(n_ // 40)
            kind, sel, why = call_encoder(smi, strict)
            rec = {"smi": smi, "strict": bool(strict), "kind": kind, "why": why, "sel": "", "dec": "", "reenc": ""}
            again = call_encoder(smi, strict)
            if again != (kind, sel, why):        # the same call repeated in the same state (purity)
                rec["kind"] = "NotRepeatable(%s then %s)" % (kind, again[0])
                kind = rec["kind"]
            if kind == "ok":
                rec["sel"] = sel
                k2, dec = call_decoder(sel)
                rec["dec"] = dec if k2 == "ok" else "<%s>" % k2
                if k2 == "ok":
                    k3, re_, _ = call_encoder(dec, strict)
                    rec["reenc"] = re_ if k3 == "ok" else "<%s>" % k3
            recs.append(rec)
    finally:
        set_table("default")
    return recs


def validate_roundtrip_trace(name, records, table, nprocs=None, timeout=3000):
    import json as _json
    if not records:
        return [], []
    ascii_ok = [i for i, r in enumerate(records) if all(ord(c) < 127 for c in r["smi"])]
    nprocs = max(1, min(nprocs or NCPU, len(ascii_ok)))
    work = scratch("rt_%s_" % name)
    order = sorted(ascii_ok, key=lambda i: -len(records[i]["smi"]))
    chunks = [[] for _ in range(nprocs)]
    loads = [0] * nprocs
    for i in order:
        k = loads.index(min(loads))
        chunks[k].append(i)
        loads[k] += len(records[i]["smi"]) ** 2 // 50 + 20
    jobs = []
    for ci, idxs in enumerate(chunks):
        if not idxs:
            continue
        idxs.sort()
        mod = "MC_%s_%d" % (name, ci)
        sub = os.path.join(work, "p%d" % ci)
        os.makedirs(sub)
        tf = os.path.join(sub, "trace.json")
        with open(tf, "w") as f:
            _json.dump([records[i] for i in idxs], f, ensure_ascii=True)
        with open(os.path.join(sub, "DecParams.tla"), "w") as f:
            txt = dec_params(table, gen=False, trace=True)
            txt = txt.replace('KnownSyms == UNION {{Tr[i].inp[j] : j \\in 1..Len(Tr[i].inp)} : '
                              'i \\in {k \\in 1..Len(Tr) : "inp" \\in DOMAIN Tr[k]}}', "KnownSyms == {}")
            f.write(txt)
        with open(os.path.join(sub, mod + ".tla"), "w") as f:
            f.write(mc_module(mod, extends="TraceRT"))

        def job(mod=mod, sub=sub, idxs=idxs, tf=tf):
            r = run_tlc(sub, mod, "SPECIFICATION Spec\nCHECK_DEADLOCK FALSE\n", workers=1, timeout=timeout,
                        heap="3g", env_extra={"TRACE_FILE": tf})
            r.idxs = idxs
            return r
        jobs.append(job)
    log("roundtrip trace %s: %d records in %d processes" % (name, len(ascii_ok), len(jobs)))
    results = run_parallel(jobs, max_procs=NCPU)
    log("roundtrip trace %s done, slowest %.1fs" % (name, max(r.wall for r in results)))
    events = []
    for r in results:
        tlc_ok(r, name)
        done = [e for e in r.printed if e.get("ev") == "DONE"]
        if not done or done[0]["n"] != len(r.idxs):
            raise MachineryError("round-trip trace validation incomplete (%s)\n%s" % (name, r.log[-2500:]))
        for e in r.printed:
            if "tid" in e:
                e = dict(e)
                e["tid"] = r.idxs[e["tid"] - 1]
            events.append(e)
    return results, events
