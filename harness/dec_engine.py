"""Decoder-side engines: MC (invariants), GEN (vector emission) and REPLAY into selfies.decoder."""
import json
import os
import sys
import time

from common import (scratch, run_tlc, run_parallel, tla_set, tla_seq, tla_table, tla_str,
                    MachineryError, NCPU, REPO, tlc_ok)

PRESETS = {"default": "DefaultTable", "octet_rule": "OctetTable", "hypervalent": "HypervalentTable"}

C01_INVARIANTS = ["InvValence", "InvCapIsTable", "InvStateBound", "InvNoSelfBond", "InvNoDoubleEdge",
                  "InvOrdersLegal", "InvChainForward", "InvLabelsLegal", "InvLabelsPaired",
                  "InvRingsClosed", "InvBalanced", "InvNoEmptyBranch", "InvAllWritten"]


def table_expr(table):
    if isinstance(table, str):
        return PRESETS[table]
    return tla_table(table)


def mc_module(name, alphabet, table, first, extends="DecodeCall", extra_defs=""):
    return ("---- MODULE %s ----\nEXTENDS %s\n"
            "Alpha == %s\nFirst == %s\nTab == %s\n%s\n====\n") % (
        name, extends, tla_set(alphabet), tla_set(first), table_expr(table), extra_defs)


def mc_cfg(maxlen, compat=False, maxlabel=99, spec="FastSpec", invariants=(), view=False,
           emit=None, allow_empty=True, gen=True, properties=(), constraint=None, extra_consts=""):
    lines = ["SPECIFICATION " + spec, "CONSTANTS",
             "  Table <- Tab", "  Compat = %s" % ("TRUE" if compat else "FALSE"),
             "  MaxLabel = %d" % maxlabel, "  KnownSyms <- Alpha",
             "  Gen = %s" % ("TRUE" if gen else "FALSE"), "  Alphabet <- Alpha", "  MaxLen = %d" % maxlen,
             "  Input <- Alpha", "  FirstSyms <- First",
             "  AllowEmpty = %s" % ("TRUE" if allow_empty else "FALSE")]
    if extra_consts:
        lines.append(extra_consts)
    for inv in invariants:
        lines.append("INVARIANT " + inv)
    if emit:
        lines.append("INVARIANT " + emit)
    for p in properties:
        lines.append("PROPERTY " + p)
    if view:
        lines.append("VIEW View")
    if constraint:
        lines.append("CONSTRAINT " + constraint)
    lines.append("CHECK_DEADLOCK FALSE")
    return "\n".join(lines) + "\n"


def partitions(alphabet, nparts):
    """Split the first-symbol choice over at most nparts processes."""
    nparts = max(1, min(nparts, len(alphabet)))
    parts = [[] for _ in range(nparts)]
    for i, s in enumerate(alphabet):
        parts[i % nparts].append(s)
    return parts


def run_decoder_tlc(name, alphabet, table, maxlen, compat=False, maxlabel=99, emit=False,
                    invariants=(), view=False, spec="FastSpec", coverage=False, nparts=None,
                    timeout=3000, properties=(), extends="DecodeCall", emit_name="Emit",
                    extra_defs="", heap="3g"):
    """Run one configuration, partitioned over parallel single-worker TLC processes.
    Returns (list of TlcResult, vectors)."""
    nparts = nparts or min(NCPU, len(alphabet))
    if coverage:
        nparts = 1
    work = scratch("dec_%s_" % name)
    parts = partitions(alphabet, nparts)
    jobs = []
    for pi, first in enumerate(parts):
        mod = "MC_%s_%d" % (name, pi)
        with open(os.path.join(work, mod + ".tla"), "w") as f:
            f.write(mc_module(mod, alphabet, table, first, extends=extends, extra_defs=extra_defs))
        cfg = mc_cfg(maxlen, compat=compat, maxlabel=maxlabel, spec=spec, invariants=invariants, view=view,
                     emit=(emit_name if emit else None), allow_empty=(pi == 0), properties=properties)
        extra = ["-coverage", "1"] if coverage else []
        out_path = os.path.join(work, mod + ".out")

        def job(mod=mod, cfg=cfg, extra=extra, out_path=out_path):
            return run_tlc(work, mod, cfg, workers=(NCPU if coverage else 1), extra=extra, timeout=timeout,
                           stdout_path=out_path, keep_json=emit, heap=heap)
        jobs.append(job)
    results = run_parallel(jobs, max_procs=NCPU)
    vectors = []
    for r in results:
        tlc_ok(r, name)
        vectors.extend(r.printed)
        r.printed = []
    return results, vectors


# --------------------------------------------------------------------------
# REPLAY into the real decoder
# --------------------------------------------------------------------------

_sf = None


def selfies_mod():
    """The implementation under test, imported from /repo's working tree."""
    global _sf
    if _sf is None:
        if REPO not in sys.path:
            sys.path.insert(0, REPO)
        os.environ.setdefault("SELFIES_VERIF", "1")
        import selfies
        if not os.path.abspath(selfies.__file__).startswith(os.path.abspath(REPO)):
            raise MachineryError("selfies imported from %s, not from %s" % (selfies.__file__, REPO))
        _sf = selfies
    return _sf


def set_table(table):
    sf = selfies_mod()
    sf.set_semantic_constraints(table if isinstance(table, str) else dict(table))


def call_decoder(s, compat=False, attribute=False):
    """Returns (kind, value) with kind in ok / DecoderError / <other exception type>."""
    import warnings
    sf = selfies_mod()
    try:
        with warnings.catch_warnings():
            warnings.simplefilter("ignore")
            r = sf.decoder(s, compatible=compat, attribute=attribute)
        return ("ok", r)
    except sf.DecoderError:
        return ("DecoderError", "")
    except Exception as e:        # any other type is a totality violation (C08)
        return (type(e).__name__, "")


def replay_decoder_vectors(vectors, table, compat=False):
    """Replay spec vectors; returns list of mismatches (vector, impl outcome)."""
    set_table(table)
    mism = []
    try:
        for v in vectors:
            s = "".join(v["inp"])
            kind, val = call_decoder(s, compat)
            if v.get("fuzzy"):
                ok = (kind == "DecoderError") or (kind == v["kind"] and val == v["out"])
            else:
                ok = (kind == v["kind"] and val == v["out"])
            if not ok:
                mism.append((v, (kind, val)))
    finally:
        set_table("default")
    return mism
