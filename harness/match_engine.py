"""Matching machine (spec/Matching.tla): MC, GEN -> REPLAY into find_perfect_matching,
RECORD -> TRACE of the calls kekulisation makes.  Verdicts: CONTRACT = C05 violation; DRIFT = the code no
longer runs the modelled algorithm (reported in the evidence, never an alarm)."""
import itertools
import json
import os

from common import (run_tlc, run_parallel, scratch, tlc_ok, log, MachineryError, NCPU)
import dec_engine as de


def _pairs(n):
    return [(a, b) for a in range(1, n + 1) for b in range(a + 1, n + 1)]


def _tla_pairs(ps):
    return "{" + ", ".join("<<%d, %d>>" % p for p in ps) + "}"


def graph_parts(sizes, nprocs):
    """Split the graphs on n nodes (n in sizes) over processes: small sizes share one process, the largest
    sizes are split by which of their first few node pairs are edges."""
    small = [n for n in sizes if len(_pairs(n)) <= 10]
    big = [n for n in sizes if len(_pairs(n)) > 10]
    procs = []
    if small:
        procs.append([{"n": n, "forced": [], "free": _pairs(n)} for n in small])
    for n in big:
        ps = _pairs(n)
        k = 0
        while (1 << (k + 1)) <= max(1, nprocs) and k + 1 <= 6:
            k += 1
        fix, free = ps[:k], ps[k:]
        for bits in itertools.product([0, 1], repeat=k):
            procs.append([{"n": n, "forced": [p for p, b in zip(fix, bits) if b], "free": free}])
    return procs


def match_params(parts, maxdeg=3, orders="asc", nocontract=False, trace=False):
    lines = ["---- MODULE MatchParams ----", "EXTENDS Integers, Sequences, Json, IOUtils",
             "MParts == {" + ", ".join("[n |-> %d, forced |-> %s, free |-> %s]" % (
                 p["n"], _tla_pairs(p["forced"]), _tla_pairs(p["free"])) for p in parts) + "}",
             "MMaxDeg == %d" % maxdeg, 'MOrders == "%s"' % orders,
             "MNoContract == %s" % ("TRUE" if nocontract else "FALSE"),
             "MTr == %s" % ("JsonDeserialize(IOEnv.TRACE_FILE)" if trace else "<<>>"), "===="]
    return "\n".join(lines) + "\n"


MC_INVARIANTS = ["GraphOk", "MatchingValid", "DegreesExact", "GreedyMaximal", "TreeSound", "Complete", "Perfect",
                 "TwoResults", "Effort"]
MC_PROPERTIES = ["PathAugments", "SizeGrows", "GreedyGrows"]


def run_match_tlc(name, sizes, maxdeg=3, orders="asc", emit=False, nocontract=False, liveness=False,
                  invariants=MC_INVARIANTS, properties=MC_PROPERTIES, timeout=3000, fastjit=False, nprocs=None):
    """Model-check the matching machine on every graph with the given node counts (max degree maxdeg).
    Returns (results, vectors)."""
    procs = graph_parts(sizes, nprocs or NCPU)
    work = scratch("match_%s_" % name)
    jobs = []
    for pi, parts in enumerate(procs):
        sub = os.path.join(work, "p%d" % pi)
        os.makedirs(sub)
        mod = "MC_%s_%d" % (name, pi)
        with open(os.path.join(sub, "MatchParams.tla"), "w") as f:
            f.write(match_params(parts, maxdeg, orders, nocontract))
        with open(os.path.join(sub, mod + ".tla"), "w") as f:
            f.write("---- MODULE %s ----\nEXTENDS MatchCall\n====\n" % mod)
        cfg = ["SPECIFICATION " + ("MFair" if liveness else "MSpec")]
        cfg += ["INVARIANT " + i for i in invariants]
        if emit:
            cfg.append("INVARIANT MEmit")
        cfg += ["PROPERTY " + p for p in properties]
        if liveness:
            cfg.append("PROPERTY Terminates")
        cfg.append("CHECK_DEADLOCK FALSE")
        out_path = os.path.join(sub, mod + ".out")

        def job(sub=sub, mod=mod, cfg="\n".join(cfg) + "\n", out_path=out_path):
            return run_tlc(sub, mod, cfg, workers=1, timeout=timeout, stdout_path=out_path, keep_json=emit,
                           heap="2g", fastjit=fastjit)
        jobs.append(job)
    log("tlc match %s: %d processes" % (name, len(jobs)))
    results = run_parallel(jobs, max_procs=NCPU)
    vectors = []
    for r in results:
        tlc_ok(r, "match " + name)
        vectors.extend(v for v in r.printed if isinstance(v, dict) and "g" in v)
        r.printed = []
    log("tlc match %s done: %d states, %d vectors" % (name, sum(r.distinct for r in results), len(vectors)))
    return results, vectors


# --------------------------------------------------------------------------
# the implementation's routine, observed without touching the repository
# --------------------------------------------------------------------------

def matching_mod():
    de.selfies_mod()
    import selfies.utils.matching_utils as mu
    return mu


class Recorder:
    """Wraps the module-level helpers of selfies.utils.matching_utils (looked up by name at call time) and
    the name mol_graph imported, and logs one event per call.  No hook in the repository is needed; if a
    helper disappears only the call-level event (graph, result) is logged and the trace specification
    reports DRIFT for the missing steps."""

    def __init__(self):
        self.records = []
        self._cur = None
        self._saved = []

    @staticmethod
    def _enc(x):
        return -1 if x is None else int(x)

    def __enter__(self):
        mu = matching_mod()
        import selfies.mol_graph as mg
        rec = self
        orig_fpm = mu.find_perfect_matching

        def wrap_helper(name, fn):
            orig = getattr(mu, name, None)
            if orig is None:
                return
            self._saved.append((mu, name, orig))
            setattr(mu, name, fn(orig))

        def greedy(orig):
            def f(*a, **k):
                out = orig(*a, **k)
                try:
                    if rec._cur is not None:
                        rec._cur["ev"].append({"e": "greedy", "mt": [rec._enc(x) for x in out]})
                except Exception:
                    pass                # another helper interface: the step is simply not logged (drift)
                return out
            return f

        def augment(orig):
            def f(*a, **k):
                out = orig(*a, **k)
                try:
                    root = a[1] if len(a) > 1 else k.get("root")
                    if rec._cur is not None and isinstance(root, int):
                        if out is None:
                            rec._cur["ev"].append({"e": "fail", "root": root})
                        else:
                            rec._cur["ev"].append({"e": "augment", "root": root, "path": [rec._enc(x) for x in out]})
                except Exception:
                    pass
                return out
            return f

        wrap_helper("_greedy_matching", greedy)
        wrap_helper("_find_augmenting_path", augment)

        def fpm(graph, *a, **k):
            outer = rec._cur
            rec._cur = {"g": [list(x) for x in graph], "ev": []}
            try:
                out = orig_fpm(graph, *a, **k)
                try:
                    rec._cur["ev"].append({"e": "return", "ok": out is not None,
                                           "mt": [] if out is None else [rec._enc(x) for x in out]})
                    rec.records.append(rec._cur)
                except Exception:
                    rec.records.append({"g": rec._cur["g"], "ev": [{"e": "return", "ok": True, "mt": []}], "odd": repr(out)[:200]})
                return out
            finally:
                rec._cur = outer

        self._saved.append((mu, "find_perfect_matching", orig_fpm))
        mu.find_perfect_matching = fpm
        if hasattr(mg, "find_perfect_matching"):
            self._saved.append((mg, "find_perfect_matching", mg.find_perfect_matching))
            mg.find_perfect_matching = fpm
        self.call = fpm
        return self

    def __exit__(self, *a):
        for mod, name, orig in reversed(self._saved):
            setattr(mod, name, orig)
        self._saved = []


def validate_match_trace(name, records, nparts=None, timeout=3000, fastjit=False):
    """TLC validates recorded calls against TraceMatch.  Returns (results, events) with events =
    list of dicts {ev: DRIFT|CONTRACT, tid (index into records), l, clause}."""
    if not records:
        return [], []
    nparts = max(1, min(nparts or NCPU, (len(records) + 199) // 200))
    work = scratch("mtrace_%s_" % name)
    chunks = [list(range(i, len(records), nparts)) for i in range(nparts)]
    jobs = []
    for pi, idxs in enumerate(chunks):
        sub = os.path.join(work, "p%d" % pi)
        os.makedirs(sub)
        mod = "MT_%s_%d" % (name, pi)
        tf = os.path.join(sub, "trace.json")
        with open(tf, "w") as f:
            json.dump([records[i] for i in idxs], f)
        with open(os.path.join(sub, "MatchParams.tla"), "w") as f:
            f.write(match_params([{"n": 0, "forced": [], "free": []}], trace=True))
        with open(os.path.join(sub, mod + ".tla"), "w") as f:
            f.write("---- MODULE %s ----\nEXTENDS TraceMatch\n====\n" % mod)
        cfg = "SPECIFICATION TSpec\nCHECK_DEADLOCK FALSE\n"

        def job(sub=sub, mod=mod, tf=tf):
            return run_tlc(sub, mod, cfg, workers=1, timeout=timeout, keep_json=True, heap="2g",
                           env_extra={"TRACE_FILE": tf}, fastjit=fastjit,
                           stdout_path=os.path.join(sub, mod + ".out"))
        jobs.append(job)
    results = run_parallel(jobs, max_procs=NCPU)
    events = []
    for pi, r in enumerate(results):
        tlc_ok(r, "match trace " + name)
        if r.violated:
            raise MachineryError("trace specification failed: %s\n%s" % (r.violated, r.log[-2000:]))
        done = [e for e in r.printed if isinstance(e, dict) and e.get("ev") == "DONE"]
        if len(done) != 1 or done[0]["n"] != len(chunks[pi]):
            raise MachineryError("match trace %s part %d: not every record was consumed\n%s" % (name, pi, r.log[-2000:]))
        for e in r.printed:
            if isinstance(e, dict) and e.get("ev") in ("DRIFT", "CONTRACT"):
                e = dict(e)
                e["tid"] = chunks[pi][e["tid"] - 1]
                events.append(e)
        r.printed = []
    return results, events
