"""Developer tool: write seeded/benign_*/meta.json from the logs of the benign runs (harness/seedtest.py output)."""
import glob
import json
import os
import re
import sys

VERIF = os.path.dirname(os.path.dirname(os.path.abspath(__file__)))


def main():
    logs = sys.argv[1:]
    res = {}
    cur = None
    for lg in logs:
        for line in open(lg):
            m = re.match(r"=== (\S+) (.*)", line)
            if m:
                cur = m.group(1)
                res.setdefault(cur, {})
                continue
            m = re.match(r"check (C\d\d): exit (\d+), (\d+) VIOLATION lines, (\d+)s", line)
            if m and cur:
                res[cur][m.group(1)] = {"exit": int(m.group(2)), "violation_lines": int(m.group(3)), "wall_s": int(m.group(4))}
    for d, checks in res.items():
        path = os.path.join(VERIF, "seeded", d)
        if not os.path.isdir(path):
            continue
        files = sorted(set(re.findall(r"^\+\+\+ b/(\S+)", open(os.path.join(path, "patch.diff")).read(), re.M)))
        meta = {"kind": "behaviour-preserving change (must NOT raise an alarm)",
                "origin": "sub-agent asked for refactorings that keep every property, own scratch worktree, nothing from /verif"
                          if re.match(r"benign_\d", d) else "hand-made",
                "files_changed": files,
                "what_was_run": "harness/seedtest.py: scratch worktree of /repo HEAD + patch.diff; quick checks of the properties anchored in the touched files",
                "checks": checks,
                "alarms": sum(1 for c in checks.values() if c["exit"] != 0 or c["violation_lines"])}
        json.dump(meta, open(os.path.join(path, "meta.json"), "w"), indent=1)
        print(d, meta["alarms"], sorted(checks))


if __name__ == "__main__":
    main()
