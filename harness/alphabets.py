"""Symbol alphabets for the decoder-side enumerations.  Each is chosen so that every rule of
the grammar is taken in every state it distinguishes (checked by the coverage guard)."""

IDX = ["[C]", "[Ring1]", "[Ring2]", "[Branch1]", "[=Branch1]", "[#Branch1]", "[Branch2]", "[=Branch2]",
       "[#Branch2]", "[O]", "[N]", "[=N]", "[=C]", "[#C]", "[S]", "[P]"]

DEC = {
    # chains, branches of all three kinds, nesting, epsilon
    "branch": ["[C]", "[=C]", "[#N]", "[O]", "[F]", "[S]", "[Branch1]", "[=Branch1]", "[#Branch1]",
               "[Branch2]", "[Ring1]", "[epsilon]", ".", "[=S]"],
    # rings of all orders, stereo pairs, collisions, repeated targets, out-of-range targets
    "ring": ["[C]", "[=C]", "[N]", "[/C]", "[\\N]", "[O]", "[Ring1]", "[=Ring1]", "[#Ring1]", "[Ring2]",
             "[-/Ring1]", "[\\/Ring2]", "[Branch1]", "[#C]"],
    # fragments, rings reaching back across the dot, nop, index symbols missing at the end
    "frag": [".", "[C]", "[=O]", "[N]", "[Ring1]", "[Ring2]", "[=Ring1]", "[Branch1]", "[=Branch1]", "[F]",
             "[nop]", "[P]"],
    # capacity 0, explicit H, charges, '?' elements, isotopes, chirality
    "caps": ["[CH4]", "[CH3]", "[OH0]", "[N+1]", "[O-1]", "[=C]", "[C@@H1]", "[13C]", "[Fe]", "[=B]",
             "[Branch1]", "[Ring1]", "[=Ring1]", "[H]"],
    # symbols outside the grammar reached / not reached; look-alikes
    "bad": ["[C]", "[=C]", "[F]", "[Branch1]", "[Ring1]", "[epsilon]", "[Foo]", "[Branch4]", "[=Ring4]",
            "[CH9]", "[C+0]", "[Neps]", ".", "[]"],
    # all sixteen index symbols (short strings)
    "index": IDX,
}

# pre-v2 symbols for compatible=True
LEGACY = ["[C]", "[=C]", "[Branch1_1]", "[Branch1_2]", "[Branch2_3]", "[Expl=Ring1]", "[Expl#Ring1]",
          "[Expl/Ring1]", "[Expl\\Ring2]", "[C@@Hexpl]", "[N+expl]", "[=Fe++expl]", "[Cexpl]", "[Ring1]",
          "[Branch1]", "[F]"]
# second legacy alphabet: the same atom with different bond prefixes, elements ending in e / x / p / l,
# spellings that need standardising, and things that must stay invalid
LEGACY2 = ["[C]", "[N+expl]", "[=N+expl]", "[#Cexpl]", "[Cexpl]", "[=Cexpl]", "[Seexpl]", "[=Seexpl]", "[Clexpl]", "[Alexpl]",
           "[Feexpl]", "[O-expl]", "[/C@Hexpl]", "[nHexpl]", "[Xxexpl]", "[Branch1_2]", "[Expl=Ring1]"]

TABLES = {
    "default": "default",
    "octet_rule": "octet_rule",
    "hypervalent": "hypervalent",
    # capacity 0 and > 8, charged keys, '?' low
    "tight": {"C": 2, "N": 0, "O": 1, "F": 1, "S": 3, "N+1": 1, "O-1": 0, "H": 1, "B": 1, "?": 1},
    "wide": {"C": 9, "N": 12, "O": 3, "F": 2, "S": 10, "N+1": 5, "O-1": 2, "H": 1, "Fe": 9, "?": 12},
    # the default entry is LOWER than the listed capacities: every unlisted key (other charges of listed elements,
    # other elements) must fall back on it and on nothing else
    "lowq": {"C": 4, "N": 3, "N+1": 4, "N-1": 2, "O": 2, "O-1": 1, "O+1": 3, "S": 6, "S+1": 5, "?": 1},
}
CHARGES2 = ["[C]", "[N+2]", "[N+1]", "[N+3]", "[O-2]", "[S+2]", "[=N+2]", "[C+1]", "[C-2]", "[Branch1]", "[Ring1]", "[=C]", "[Fe+2]", "[P]"]

# large pools from which every run draws an additional random alphabet (VERIF_SEED): widens coverage over time
DEC_POOL = sorted(set(
    [a for v in DEC.values() for a in v if a != "."] + IDX +
    ["[#C]", "[#N]", "[=N+1]", "[N-1]", "[O+1]", "[S+1]", "[P-1]", "[B-1]", "[C-1]", "[Cl]", "[Br]", "[I]", "[Si]", "[Se]",
     "[Na]", "[Mg+2]", "[Al]", "[13C]", "[2H]", "[C@]", "[C@@]", "[C@H1]", "[N@+1]", "[/N]", "[\\O]", "[=CH1]", "[#CH0]",
     "[NH1]", "[NH2+1]", "[OH1]", "[SH1]", "[PH1]", "[BH2]", "[CH2]", "[CH1-1]", "[Fe+2]", "[Cu+1]", "[Zn]", "[U]",
     "[Branch3]", "[=Branch3]", "[#Branch2]", "[#Branch3]", "[Ring3]", "[=Ring2]", "[=Ring3]", "[#Ring2]", "[#Ring3]",
     "[-\\Ring1]", "[/-Ring1]", "[//Ring2]", "[\\\\Ring1]", "[/\\Ring3]", "[\\-Ring2]", "[epsilon]", "[nop]",
     "[Xx]", "[C+0]", "[CH10]", "[=Ring0]", "[Branch]", "[c]", "[C@@@]", "[12]", "[+1]", "[C+]", "[Cl2]"]))

ENC_POOL = sorted(set(
    ["C", "N", "O", "S", "P", "F", "Cl", "Br", "I", "B", "c", "n", "o", "s", "p", "b",
     "=C", "#C", "=N", "#N", "=O", "=S", "-C", ":c", "/C", "\\C", "/N", "\\O", "=c", "-c", "-n",
     "(", ")", ".", "1", "2", "3", "=1", "#1", "-1", ":1", "/1", "\\1", "%10", "%11", "=2",
     "[CH3]", "[CH2]", "[CH]", "[C]", "[13C]", "[13CH3]", "[2H]", "[H]", "[N+]", "[NH4+]", "[NH3+]", "[O-]", "[OH-]", "[S-]",
     "[C@H]", "[C@@H]", "[C@]", "[C@@]", "[N@+]", "[S@]", "[P@@]", "[Fe+2]", "[Fe++]", "[Cu+]", "[Na+]", "[Cl-]", "[Se]", "[Si]",
     "[nH]", "[n+]", "[nH+]", "[o+]", "[s+]", "[se]", "[te]", "[as]", "[b-]", "[cH-]", "[c-]", "[c]", "[n]", "[15n]", "[n:1]", "[p]",
     "[c+]", "[cH+]", "[n-]", "[si]", "[O+]", "[OH+]", "[C-]", "[CH2-]", "[C+]", "[B-]", "[P+]", "[S+]", "[I+]", "[IH2]",
     "=[N+]", "=[O+]", "#[C-]", "/[C@H]", "\\[C@@H]", "=[Se]", "[Xx]", "[C", "*", "$C", "[C@@@]", "[CH10]", "%1", "%", "A"]))
