"""The repository's own tests as a driver: every selfies.decoder / selfies.encoder call the fast test files make
is recorded at its return / raise (input, flags, the constraint table in force, outcome) and the records are
validated by TLC against TraceDec / TraceRT - the tests' own assertions are not what is judged.

Run as a script in a child interpreter:  testsuite_trace.py <repo> <out.json> <trials>"""
import json
import os
import subprocess
import sys

FAST_TESTS = ["tests/test_specific_cases.py", "tests/test_selfies.py", "tests/test_selfies_utils.py"]


def _child(repo, out, trials):
    sys.path.insert(0, repo)
    sys.dont_write_bytecode = True
    import selfies as sf
    if not os.path.abspath(sf.__file__).startswith(os.path.abspath(repo)):
        print("selfies imported from %s" % sf.__file__)
        return 2
    records = []
    real_dec, real_enc = sf.decoder, sf.encoder

    def table():
        return dict(sf.get_semantic_constraints())

    def decoder(selfies, compatible=False, attribute=False):
        rec = {"fn": "decoder", "x": selfies, "compatible": bool(compatible), "attribute": bool(attribute), "table": table()}
        try:
            r = real_dec(selfies, compatible=compatible, attribute=attribute)
            rec["kind"] = "ok"
            rec["out"] = r[0] if attribute else r
            return r
        except Exception as e:
            rec["kind"] = type(e).__name__
            rec["out"] = ""
            raise
        finally:
            if isinstance(selfies, str):
                records.append(rec)

    def encoder(smiles, strict=True, attribute=False):
        rec = {"fn": "encoder", "x": smiles, "strict": bool(strict), "attribute": bool(attribute), "table": table()}
        try:
            r = real_enc(smiles, strict=strict, attribute=attribute)
            rec["kind"] = "ok"
            rec["out"] = r[0] if attribute else r
            return r
        except Exception as e:
            rec["kind"] = type(e).__name__
            rec["out"] = ""
            raise
        finally:
            if isinstance(smiles, str):
                records.append(rec)

    sf.decoder, sf.encoder = decoder, encoder
    import pytest
    os.chdir(repo)
    rc = pytest.main(["-q", "-p", "no:cacheprovider", "-x", "--trials", str(trials)] + FAST_TESTS)
    sf.decoder, sf.encoder = real_dec, real_enc
    # the decoding of every accepted encoder output and its re-encoding, under the table the call saw
    for rec in records:
        if rec["fn"] == "encoder" and rec["kind"] == "ok" and isinstance(rec["out"], str):
            try:
                sf.set_semantic_constraints(dict(rec["table"]))
                try:
                    rec["dec"] = real_dec(rec["out"])
                except sf.DecoderError:
                    rec["dec"] = "<DecoderError>"
                if not rec["dec"].startswith("<"):
                    try:
                        rec["reenc"] = real_enc(rec["dec"], strict=rec["strict"])
                    except sf.EncoderError:
                        rec["reenc"] = "<EncoderError>"
            except Exception as e:
                rec["dec"] = "<%s>" % type(e).__name__
    sf.set_semantic_constraints("default")
    with open(out, "w") as f:
        json.dump({"pytest_rc": int(rc), "records": records}, f)
    return 0


def record(repo, trials, workdir, timeout=900):
    """Runs the fast test files in a child interpreter with recording wrappers; returns (pytest rc, records)."""
    out = os.path.join(workdir, "testsuite_records.json")
    env = dict(os.environ)
    env["PYTHONDONTWRITEBYTECODE"] = "1"
    env.pop("SELFIES_VERIF", None)          # the suite runs with the verification hooks off
    p = subprocess.run([sys.executable, os.path.abspath(__file__), repo, out, str(trials)], stdout=subprocess.PIPE,
                       stderr=subprocess.STDOUT, timeout=timeout, env=env, text=True)
    if not os.path.exists(out):
        return None, [], p.stdout[-1500:]
    d = json.load(open(out))
    return d["pytest_rc"], d["records"], p.stdout[-600:]


if __name__ == "__main__":
    sys.exit(_child(sys.argv[1], sys.argv[2], int(sys.argv[3])))
