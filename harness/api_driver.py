"""One long random API history in this process; after every translation call the result is compared with
a fresh interpreter (a forked child that imports nothing stale is not possible after import, so the
reference is a clean subprocess that only sets the table and translates).  Prints DIVERGE lines."""
import json
import os
import random
import subprocess
import sys

sys.path.insert(0, os.path.dirname(os.path.abspath(__file__)))
import dec_engine as de
import gens
import gens_smiles as gs

REF = r'''
import sys, json
sys.path.insert(0, %r)
import dec_engine as de
sf = de.selfies_mod()
for line in sys.stdin:
    q = json.loads(line)
    sf.set_semantic_constraints(q["table"])
    if q["op"] == "decode":
        r = de.call_decoder(q["x"], q["compat"], False)
    elif q["op"] == "encode":
        r = de.call_encoder(q["x"], q["strict"])[:2]
    elif q["op"] == "preset":
        r = sf.get_preset_constraints(q["x"])
    else:
        r = sorted(sf.get_semantic_robust_alphabet())
    print(json.dumps(r)); sys.stdout.flush()
''' % os.path.dirname(os.path.abspath(__file__))


def main():
    sd, length = int(sys.argv[1]), int(sys.argv[2])
    rng = random.Random(sd)
    sf = de.selfies_mod()
    ref = subprocess.Popen([sys.executable, "-c", REF], stdin=subprocess.PIPE, stdout=subprocess.PIPE, text=True)

    def fresh(q):
        ref.stdin.write(json.dumps(q) + "\n")
        ref.stdin.flush()
        return json.loads(ref.stdout.readline())

    held = []
    set_mut = False
    steps = 0

    def do_set(arg):
        """set_semantic_constraints; whatever it hands back to the caller is an object the caller may edit"""
        ret = sf.set_semantic_constraints(arg)
        if isinstance(ret, (dict, set, list)):
            held.append(ret)
            if rng.random() < 0.6:
                if isinstance(ret, dict):
                    ret["C"] = 0
                    ret.pop("?", None)
                    ret["Zz"] = 1
                elif isinstance(ret, set):
                    ret.add("[junk]")
                else:
                    ret.append("[junk]")
        return ret
    elements = ["C", "N", "O", "S", "P", "F", "Cl", "Fe", "N+1", "O-1", "C-1", "S+1", "B", "Si", "H"]
    for _ in range(length):
        steps += 1
        r = rng.random()
        cur = sf.get_semantic_constraints()
        if r < 0.12:
            do_set(rng.choice(["default", "octet_rule", "hypervalent"]))
            set_mut = False
        elif r < 0.25:
            t = {k: rng.choice([0, 1, 2, 3, 4, 5, 6, 9]) for k in rng.sample(elements, rng.randint(0, 8))}
            t["?"] = rng.choice([1, 2, 4, 8, 12])
            do_set(t)
            held.append(t)
            set_mut = False
        elif r < 0.29 and held and any(isinstance(o, dict) and "?" in o for o in held):
            # parameter sweep: edit a dict the caller already holds (possibly the one installed last) and install it again
            o = rng.choice([o for o in held if isinstance(o, dict) and "?" in o])
            o[rng.choice(["C", "N", "O", "S", "?"])] = rng.choice([1, 2, 3, 4, 6])
            try:
                do_set(o)
            except ValueError:
                pass
            set_mut = False
        elif r < 0.33:
            bad = rng.choice([{"C": 4}, {"C": -1, "?": 8}, {"Qq": 1, "?": 8}, {"C": 2.5, "?": 8}, "nope", 7, {"C+0": 1, "?": 3}])
            try:
                sf.set_semantic_constraints(bad)
                print("DIVERGE " + json.dumps({"what": "accepted", "message": "set_semantic_constraints(%r) accepted" % (bad,)}))
            except ValueError:
                pass
            if sf.get_semantic_constraints() != cur:
                print("DIVERGE " + json.dumps({"what": "state", "message": "rejected update changed the table"}))
        elif r < 0.40:
            held.append(sf.get_semantic_constraints())
        elif r < 0.45:
            nm = rng.choice(["default", "octet_rule", "hypervalent"])
            pr = sf.get_preset_constraints(nm)
            if pr != fresh({"op": "preset", "table": "default", "x": nm}):
                print("DIVERGE " + json.dumps({"what": "preset", "message": "get_preset_constraints(%r) = %r differs from a fresh interpreter" % (nm, pr)}))
            held.append(pr)
        elif r < 0.52:
            a = sf.get_semantic_robust_alphabet()
            want = fresh({"op": "alphabet", "table": cur})
            if sorted(a) != want:
                print("DIVERGE " + json.dumps({"what": "alphabet", "after_set_mutation": set_mut,
                                               "message": "alphabet differs from a fresh interpreter"}))
            held.append(a)
        elif r < 0.62 and held:
            o = rng.choice(held)
            if isinstance(o, dict):
                o[rng.choice(elements)] = rng.randint(0, 9)
                if rng.random() < 0.3:
                    o.pop("?", None)
            else:
                o.add("[junk]")
                o.discard(rng.choice(["[C]", "[=C]", "[N]", "[Ring1]"]))
                set_mut = True
        elif r < 0.82:
            toks = gens.alive_selfies(rng, rng.randint(1, 40))
            for _ in range(rng.randint(0, 3)):      # hydrogen-rich atoms whose validity depends on the table
                toks.insert(rng.randint(0, len(toks)), rng.choice(["[NH4]", "[CH5]", "[OH3]", "[CH4]", "[NH3]", "[BH4]", "[SH6]", "[PH5]"]))
            if rng.random() < 0.3:               # symbols outside the index alphabet in index positions
                for k in range(len(toks) - 1):
                    if ("Ring" in toks[k] or "Branch" in toks[k]) and rng.random() < 0.5:
                        toks[k + 1] = rng.choice(["[F]", "[Cl]", "[=O]", "[Si]", "[nop]", "[N+1]"])
            x = "".join(toks)
            compat = rng.random() < 0.1
            got = list(de.call_decoder(x, compat, False))
            want = fresh({"op": "decode", "table": cur, "x": x, "compat": compat})
            if got != want:
                print("DIVERGE " + json.dumps({"what": "decode", "message": "decoder(%r) = %r, fresh interpreter %r under %r" % (x, got, want, cur)}))
        else:
            x = rng.choice(gs.BUILTIN)
            strict = rng.random() < 0.5
            got = list(de.call_encoder(x, strict)[:2])
            want = fresh({"op": "encode", "table": cur, "x": x, "strict": strict})
            if got != want:
                print("DIVERGE " + json.dumps({"what": "encode", "message": "encoder(%r, strict=%s) = %r, fresh interpreter %r under %r" % (x, strict, got, want, cur)}))
    ref.stdin.close()
    ref.wait()
    sf.set_semantic_constraints("default")
    print("STEPS %d" % steps)


if __name__ == "__main__":
    main()
