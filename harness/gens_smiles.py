"""SMILES input drivers.  RDKit is used ONLY as a generator of alternative spellings (random atom
order, kekulised / aromatic form, explicit bonds) - never as a judge; TLC judges every record."""
import csv
import glob
import os
import random

from common import REPO

BUILTIN = [
    # stereo-rich
    "C[C@H](N)C(=O)O", "N[C@@H](C)C(=O)O", "F/C=C/F", "F/C=C\\F", "C[C@]12CC[C@H]3[C@@H](CCc4cc(O)ccc34)[C@@H]1CC[C@@H]2O",
    "OC[C@H]1O[C@@H](O)[C@H](O)[C@@H](O)[C@@H]1O", "C[C@@]12CCC(=O)C=C1CC[C@@H]1[C@@H]2CC[C@]2(C)[C@@H](O)CC[C@@H]12",
    "[C@]12(F)CCC1CC2", "C1C[C@@]2(CCCO2)OC1", "F/C=C/C/C=C\\C", "C/C=C/1CCCC\\1=C/C", "[C@@H]12CCC2CCNC1",
    "N[C@@]1(C)CC[C@H]1Cl", "C[S@](=O)c1ccccc1", "[C@H](F)(Cl)Br", "[C@@](F)(Cl)(Br)I", "C[C@H]1CC[C@@H](C)CC1",
    # aromatic: fused, bridged, hetero, charged
    "c1ccccc1", "c1ccc2ccccc2c1", "c1ccc2cc3ccccc3cc2c1", "c1cc2cccc3ccc4cccc1c4c32", "c1ccc2c(c1)[nH]c1ccccc12",
    "c1cc2ccc3cccc4ccc(c1)c2c34", "c1ccc2cccc2cc1", "c1cnc2ncncc2c1", "O=c1cc[nH]cc1", "c1ccoc1", "c1ccsc1", "c1cc[nH]c1",
    "Cn1cnc2c1c(=O)n(C)c(=O)n2C", "c1cc[n+](C)cc1", "[O-][n+]1ccccc1", "c1ccc2[nH]ccc2c1", "c1cnc[nH]1", "c1ccpcc1",
    "c1cc[o+]cc1", "[cH-]1cccc1", "c1cc2cc3cc4cc5ccccc5cc4cc3cc2cc1", "c1ccc(-c2ccccc2)cc1", "c1ccc(cc1)-c1ccccc1",
    "c1cc2ccc1CCc1ccc(CC2)cc1", "c12c3c4c5c1c1c6c7c2c2c8c3c3c9c4c4c%10c5c5c1c1c6c6c%11c7c2c2c7c8c3c3c8c9c4c4c9c%10c5c5c1c1c6c6c%11c2c2c7c3c3c8c4c4c9c5c1c1c6c2c3c41",
    "C12=C3C4=C5C6=C1C7=C8C9=C1C%10=C%11C(=C29)C3=C2C3=C4C4=C5C5=C9C6=C7C6=C7C8=C1C1=C8C%10=C%10C%11=C2C2=C3C3=C4C4=C5C5=C%11C%12=C(C6=C95)C7=C1C1=C%12C5=C%11C4=C3C3=C5C(=C81)C%10=C23",
    # charges, isotopes, H counts, odd elements
    "[NH4+]", "[Na+].[Cl-]", "C[N+](C)(C)C", "[13CH4]", "[2H]O[2H]", "[Fe+2]", "[Cu+2].[O-]S(=O)(=O)[O-]", "O=[N+]([O-])c1ccccc1",
    "CC(=O)[O-].[K+]", "[Se]=C", "C[Si](C)(C)C", "B(O)(O)c1ccccc1", "[O-][Cl+3]([O-])([O-])[O-]", "O=I(O)(O)(O)(O)O", "FS(F)(F)(F)(F)F",
    "CP(C)(C)(C)C", "[CH3-]", "[CH2]", "[OH-]", "C#N", "[C-]#[O+]", "N#N", "C=C=C", "OO", "CC(C)(C)C",
    # ring / branch shapes
    "C1CC1", "C1CCC2CCCCC2C1", "C12CC1C2", "C1CC12CC2", "C1(CC1)C1CC1", "C(C(C(C)C)C)C", "CC(C)(C(C)(C)C)C(C)(C)C",
    "C1CCCCCCCCCCCCCCCCCCCCC1", "CCCCC1CCCC(Cl)1CCCCCC", "C1CC2CCS1(=O)2C", "C1CC2CC[Si]1(C)2C", "C1CC2CCP1(=O)(C)2",
    "[C@]123CCCC3CCOC2CCNC1", "[C@]123CCCC2CCOC3CCNC1", "C1CC2CCO[C@](F)12", "[C@](F)(Cl)1CCCCO1", "F/C=C/1CCCC/1", "C\\1CCC\\1",
    "C/1=C/C=C\\C=C/C=C/1", "c12occc-1cccc2", "c1ccc2c(c1)-c1ccccc1-2", "c1cc-2c(cc1)-c1ccccc-21", "C[NH4+]", "[OH2]C", "C(CCC1CC)1", "C%10CCC%10", "C1CC1C1CC1", "C=1CCCCC=1", "C1=CC=CC=C1",
]


def dataset_files():
    base = os.path.join(REPO, "tests", "test_sets")
    return sorted(glob.glob(os.path.join(base, "**", "*.csv"), recursive=True))


def sample_dataset(path, k, rng):
    """Reservoir-sample k SMILES from a csv with a 'smiles' column."""
    out = []
    try:
        with open(path, newline="") as f:
            rd = csv.reader(f)
            header = next(rd, None)
            if not header:
                return []
            col = header.index("smiles") if "smiles" in header else 0
            for i, row in enumerate(rd):
                if len(row) <= col:
                    continue
                s = row[col].strip()
                if not s or "*" in s or "$" in s:
                    continue
                if len(out) < k:
                    out.append(s)
                else:
                    j = rng.randint(0, i)
                    if j < k:
                        out[j] = s
    except OSError:
        return []
    return out


def respell(smi, rng, n):
    """Up to n alternative spellings of the same molecule."""
    try:
        from rdkit import Chem, RDLogger
        RDLogger.DisableLog("rdApp.*")
    except Exception:
        return []
    mol = Chem.MolFromSmiles(smi)
    if mol is None:
        return []
    out = []
    nat = mol.GetNumAtoms()
    for i in range(n):
        try:
            kek = rng.random() < 0.35
            m = Chem.Mol(mol)
            if kek:
                Chem.Kekulize(m, clearAromaticFlags=True)
            s = Chem.MolToSmiles(m, canonical=False, doRandom=False if nat == 0 else True,
                                 kekuleSmiles=kek, allBondsExplicit=(rng.random() < 0.15),
                                 rootedAtAtom=rng.randrange(nat) if nat else -1)
            out.append(s)
        except Exception:
            continue
    return out


def colon_spelling(smi, rng, n):
    """The same aromatic molecule written with upper-case atoms and explicit ':' bonds (C1:C:C:C:C:C:1), in n random
    atom orders; unbracketed aromatic atoms only (bracket atoms keep their spelling)."""
    import re
    try:
        from rdkit import Chem, RDLogger
        RDLogger.DisableLog("rdApp.*")
    except Exception:
        return []
    mol = Chem.MolFromSmiles(smi)
    if mol is None or not any(a.GetIsAromatic() for a in mol.GetAtoms()):
        return []
    out = []
    nat = mol.GetNumAtoms()
    for _ in range(n):
        try:
            s = Chem.MolToSmiles(mol, canonical=False, doRandom=True, allBondsExplicit=True, rootedAtAtom=rng.randrange(nat))
        except Exception:
            continue
        if "[" in s and re.search(r"\[[^\]]*[a-z]{1}[^\]]*\]", s) and re.search(r"\[(\d*)(c|n|o|s|p|se|b|te|as)[^a-z]", s):
            continue        # aromatic bracket atoms: their hydrogen bookkeeping differs between the two notations
        t = re.sub(r"(?<![A-Z\[@])(c|n|o|s|p)(?![a-z])", lambda m_: m_.group(1).upper(), s)
        out.append(t)
    return out


def corpus(rng, per_file, variants, include_builtin=True, files=None):
    """(source, smiles) pairs: dataset molecules and built-in ones, each with re-spellings."""
    import random as _r
    try:
        from rdkit import Chem
        Chem.rdBase.SeedRandomNumberGenerator(rng.randrange(1 << 30)) if hasattr(Chem, "rdBase") else None
    except Exception:
        pass
    base = []
    for p in (files if files is not None else dataset_files()):
        for s in sample_dataset(p, per_file, rng):
            base.append((os.path.basename(p), s))
    if include_builtin:
        base += [("builtin", s) for s in BUILTIN]
    out = []
    for src, s in base:
        out.append((src, s))
        vs = respell(s, rng, variants)
        for v in vs:
            out.append((src + "/respelled", v))
        # non-standard orders of ring digits and branches (of the molecule as given and of one re-spelling)
        for v in [s] + vs[:1]:
            w = shuffle_ring_branch(v, rng)
            if w != v:
                out.append((src + "/ring-branch-shuffled", w))
    return out


def macrocycle(n):
    """Ring whose closure symbol carries the index value n (ring of n + 2 atoms)."""
    return "C1" + "C" * n + "C1"


def long_branch(n):
    """Branch whose symbol carries the index value n (branch of n + 1 atoms)."""
    return "C(" + "C" * (n + 1) + ")C"


def aromatic_spellings(n, edges, rng, count):
    """SMILES spellings of an all-'c' graph via RDKit (random atom orders); [] if RDKit cannot build it."""
    try:
        from rdkit import Chem, RDLogger
        RDLogger.DisableLog("rdApp.*")
    except Exception:
        return []
    rw = Chem.RWMol()
    for _ in range(n):
        a = Chem.Atom(6)
        a.SetIsAromatic(True)
        a.SetNoImplicit(False)
        rw.AddAtom(a)
    for a, b in edges:
        rw.AddBond(a, b, Chem.BondType.AROMATIC)
    m = rw.GetMol()
    out = set()
    for _ in range(count * 3):
        try:
            s = Chem.MolToSmiles(m, canonical=False, doRandom=True, rootedAtAtom=rng.randrange(n))
        except Exception:
            break
        out.add(s)
        if len(out) >= count:
            break
    return sorted(out)


def small_graphs(rng, nmax, per_size, maxdeg=3):
    """Random connected graphs with maximum degree 3 (sigma skeletons of aromatic carbons), biased towards
    odd cycles and fused small rings."""
    out = []
    for n in range(3, nmax + 1):
        tries = 0
        got = 0
        while got < per_size and tries < per_size * 30:
            tries += 1
            edges = set()
            deg = [0] * n
            perm = list(range(n))
            rng.shuffle(perm)
            for i in range(1, n):          # random spanning tree
                cand = [perm[j] for j in range(i) if deg[perm[j]] < maxdeg]
                if not cand:
                    break
                p = rng.choice(cand)
                edges.add((min(p, perm[i]), max(p, perm[i])))
                deg[p] += 1
                deg[perm[i]] += 1
            else:
                extra = rng.randint(1, max(1, n // 2))
                for _ in range(extra * 3):
                    a, b = rng.sample(range(n), 2)
                    e = (min(a, b), max(a, b))
                    if e not in edges and deg[a] < maxdeg and deg[b] < maxdeg:
                        edges.add(e)
                        deg[a] += 1
                        deg[b] += 1
                        extra -= 1
                        if extra == 0:
                            break
                out.append((n, sorted(edges)))
                got += 1
    return out


# --------------------------------------------------------------------------
# non-standard but legal spellings: ring-closure digits and branches of an atom in any order
# --------------------------------------------------------------------------

def _tokenize(smi):
    """Minimal tokenizer for *generating* spellings (not a judge): atoms, bonds+ring digits, parens, dots."""
    toks, i, n = [], 0, len(smi)
    while i < n:
        c = smi[i]
        b = ""
        if c in "-=#:/\\" and i + 1 < n:
            b, i = c, i + 1
            c = smi[i]
        if c == "[":
            j = smi.index("]", i)
            toks.append(("atom", b + smi[i:j + 1]))
            i = j + 1
        elif c == "%":
            toks.append(("ring", b + smi[i:i + 3]))
            i += 3
        elif c.isdigit():
            toks.append(("ring", b + c))
            i += 1
        elif c in "()":
            toks.append((c, b + c))
            i += 1
        elif c == ".":
            toks.append((".", "."))
            i += 1
        elif smi[i:i + 2] in ("Cl", "Br"):
            toks.append(("atom", b + smi[i:i + 2]))
            i += 2
        else:
            toks.append(("atom", b + c))
            i += 1
    return toks


def shuffle_ring_branch(smi, rng):
    """Re-spell: after each atom, permute its ring-closure digits and branches (a ring digit written after a
    branch, branches before digits, digits in another order).  Chirality marks then denote another
    stereoisomer - the result is still a legal SMILES of *a* molecule, which is all a driver needs."""
    try:
        toks = _tokenize(smi)
    except ValueError:
        return smi
    out = []
    i = 0
    n = len(toks)

    def group_end(k):           # k at "(": index after the matching ")"
        depth = 0
        while k < n:
            if toks[k][0] == "(":
                depth += 1
            elif toks[k][0] == ")":
                depth -= 1
                if depth == 0:
                    return k + 1
            k += 1
        return n

    def emit(lo, hi):
        k = lo
        while k < hi:
            kind, txt = toks[k]
            out.append(txt)
            k += 1
            if kind == "atom":
                items = []
                while k < hi and toks[k][0] in ("ring", "("):
                    if toks[k][0] == "ring":
                        items.append((k, k + 1))
                        k += 1
                    else:
                        e = group_end(k)
                        items.append((k, e))
                        k = e
                if len(items) > 1:
                    rng.shuffle(items)
                for lo2, hi2 in items:
                    if toks[lo2][0] == "ring":
                        out.append(toks[lo2][1])
                    else:
                        out.append("(")
                        emit(lo2 + 1, hi2 - 1)
                        out.append(")")
    emit(0, n)
    return "".join(out)
