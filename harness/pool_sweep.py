import sys, random, time, json
sys.path.insert(0,'/verif/harness')
from alphabets import *
import dec_engine as de
from report import Report
import checks_dec, checks_enc
which=sys.argv[1]; s0=int(sys.argv[2]); s1=int(sys.argv[3])
for sd in range(s0,s1):
    rng=random.Random(sd)
    rep=Report("X","quick")
    if which=="dec":
        alpha=sorted(rng.sample(DEC_POOL, 11))+["."]
        tab=rng.choice(["default","octet_rule","hypervalent","tight","wide"])
        compat=rng.random()<0.2
        if compat: alpha=alpha[:8]+rng.sample(LEGACY,4)
        checks_dec.gen_replay(rep, "pool%d"%sd, alpha, TABLES[tab], 4 if len(alpha)<=12 else 3, compat=compat, fastjit=True)
    else:
        alpha=sorted(rng.sample(ENC_POOL, 12))
        for must in ("C","(",")","1"):
            if must not in alpha and rng.random()<0.7: alpha.append(must)
        tab=rng.choice(["default","octet_rule","hypervalent","tight"])
        strict=rng.random()<0.7
        checks_enc.enc_gen_replay(rep, "pool%d"%sd, alpha, TABLES[tab], 4, strict=strict, quick=True, own=("C03","C04","C05","C06","C09","C10","C14","C02"))
    print(sd, which, alpha, len(rep.violations), rep.traces, flush=True)
    for d,o in rep.violations[:4]: print("   ", d[:300], flush=True)
