---- MODULE MCEnc ----
EXTENDS EncProto
A(txt, b, pre, post, chi) == [k |-> "atom", txt |-> b \o txt, b |-> b, sym |-> [pre |-> pre, post |-> post], chi |-> chi]
Alpha == { A("C","","C","",""), A("C","=","C","",""), A("N","","N","",""), A("[C@@H]","","C","H1","@@"), A("[C@]","","C","","@"), A("F","/","F","",""),
  [k |-> "open", txt |-> "("], [k |-> "close", txt |-> ")"],
  [k |-> "ring", txt |-> "1", lab |-> "1", b |-> ""], [k |-> "ring", txt |-> "2", lab |-> "2", b |-> ""], [k |-> "ring", txt |-> "=1", lab |-> "1", b |-> "="],
  [k |-> "dot", txt |-> "."] }
====
