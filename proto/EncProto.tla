---- MODULE EncProto ----
EXTENDS Integers, Sequences, FiniteSets, TLC, Json
CONSTANTS MaxLen, Alphabet
VARIABLES hist, pc, atoms, adj, pstack, bdepth, rlog, cstart, nfrag0, est, outp, eof
vars == <<hist, pc, atoms, adj, pstack, bdepth, rlog, cstart, nfrag0, est, outp, eof>>
\* atoms[i] = [sym, chi, ringflag];  adj[i] = Seq of slots [kind |-> "chain"|"ring"|"hole", to, order, st]
\* pstack: Seq of atom idx (0 = None). rlog: set of [lab, atom, slot, b]
Min(a,b) == IF a < b THEN a ELSE b
Order(b) == IF b = "=" THEN 2 ELSE IF b = "#" THEN 3 ELSE 1
Stereo(b) == IF b \in {"/", "\\"} THEN b ELSE ""
Top == pstack[Len(pstack)]
HasBond(a, b) == \/ \E k \in 1..Len(adj[a]) : adj[a][k].kind # "hole" /\ adj[a][k].to = b
                 \/ \E k \in 1..Len(adj[b]) : adj[b][k].kind # "hole" /\ adj[b][k].to = a

Init == /\ hist = <<>> /\ pc = "parse" /\ atoms = <<>> /\ adj = <<>> /\ pstack = <<0>> /\ bdepth = 0
        /\ rlog = {} /\ cstart = TRUE /\ nfrag0 = 0 /\ est = <<>> /\ outp = <<>> /\ eof = FALSE

Can == pc = "parse" /\ Len(hist) < MaxLen
Err == pc' = "error" /\ UNCHANGED <<atoms, adj, pstack, bdepth, rlog, cstart, nfrag0, est, outp, eof>>

TAtom(t) ==
  /\ Can /\ t.k = "atom" /\ hist' = Append(hist, t)
  /\ LET n == Len(atoms) + 1
         p == Top
     IN /\ atoms' = Append(atoms, [sym |-> t.sym, chi |-> t.chi, rf |-> FALSE])
        /\ adj' = IF p = 0 THEN Append(adj, <<>>)
                  ELSE Append([adj EXCEPT ![p] = Append(@, [kind |-> "chain", to |-> n, order |-> Order(t.b), st |-> Stereo(t.b)])], <<>>)
        /\ pstack' = [pstack EXCEPT ![Len(pstack)] = n]
        /\ cstart' = FALSE /\ pc' = pc
  /\ UNCHANGED <<bdepth, rlog, nfrag0, est, outp, eof>>
\* note: a bond char before the first atom of a fragment is silently ignored by the implementation (root has no bond)

TOpen(t) ==
  /\ Can /\ t.k = "open" /\ hist' = Append(hist, t)
  /\ IF cstart THEN Err
     ELSE /\ pstack' = Append(pstack, Top) /\ bdepth' = bdepth + 1 /\ cstart' = TRUE /\ pc' = pc
          /\ UNCHANGED <<atoms, adj, rlog, nfrag0, est, outp, eof>>
TClose(t) ==
  /\ Can /\ t.k = "close" /\ hist' = Append(hist, t)
  /\ IF cstart \/ bdepth = 0 THEN Err
     ELSE /\ pstack' = SubSeq(pstack, 1, Len(pstack) - 1) /\ bdepth' = bdepth - 1 /\ pc' = pc
          /\ UNCHANGED <<atoms, adj, rlog, cstart, nfrag0, est, outp, eof>>
TRing(t) ==
  /\ Can /\ t.k = "ring" /\ hist' = Append(hist, t)
  /\ IF cstart THEN Err
     ELSE LET p == Top
              open == {r \in rlog : r.lab = t.lab}
          IN IF open = {}
             THEN /\ adj' = [adj EXCEPT ![p] = Append(@, [kind |-> "hole", to |-> 0, order |-> 0, st |-> ""])]
                  /\ rlog' = rlog \cup {[lab |-> t.lab, atom |-> p, slot |-> Len(adj[p]) + 1, b |-> t.b]}
                  /\ pc' = pc /\ UNCHANGED <<atoms, pstack, bdepth, cstart, nfrag0, est, outp, eof>>
             ELSE LET r == CHOOSE r \in open : TRUE
                      lb == r.b   rb == t.b
                      b0 == IF lb = "" THEN rb ELSE lb
                      b1 == IF lb = "" THEN lb ELSE rb
                      okb == (b0 = b1) \/ (b1 = "") \/ (b0 \in {"/","\\"} /\ b1 \in {"/","\\"})
                      ord == IF Order(lb) > Order(rb) THEN Order(lb) ELSE Order(rb)
                  IN IF r.atom = p \/ HasBond(r.atom, p) \/ ~okb THEN Err   \* self ring: implementation raises IndexError (known defect)
                     ELSE /\ adj' = [adj EXCEPT ![r.atom][r.slot] = [kind |-> "ring", to |-> p, order |-> ord, st |-> Stereo(lb)],
                                                ![p] = Append(@, [kind |-> "ring", to |-> r.atom, order |-> ord, st |-> Stereo(rb)])]
                          /\ atoms' = [atoms EXCEPT ![r.atom].rf = TRUE, ![p].rf = TRUE]
                          /\ rlog' = rlog \ {r} /\ pc' = pc
                          /\ UNCHANGED <<pstack, bdepth, cstart, nfrag0, est, outp, eof>>
\* end of fragment (dot) or end of input
EndFrag(isEof) ==
  IF Len(atoms) = 0 \/ bdepth > 0 \/ rlog # {} THEN Err
  ELSE /\ pstack' = <<0>> /\ cstart' = TRUE
       /\ pc' = IF isEof THEN "chir" ELSE pc
       /\ UNCHANGED <<atoms, adj, bdepth, rlog, nfrag0, est, outp, eof>>
TDot(t) == /\ Can /\ t.k = "dot" /\ hist' = Append(hist, t) /\ EndFrag(FALSE)
TEof == /\ pc = "parse" /\ Len(hist) > 0 /\ UNCHANGED hist
        /\ IF hist[Len(hist)].k = "dot" /\ Len(atoms) > 0   \* trailing dot: loop simply ends
           THEN pc' = "chir" /\ UNCHANGED <<atoms, adj, pstack, bdepth, rlog, cstart, nfrag0, est, outp, eof>>
           ELSE EndFrag(TRUE)

\* ---- chirality inversion (all at once) ----
Inversions(sq) == Cardinality({<<i, j>> \in (1..Len(sq)) \X (1..Len(sq)) : i < j /\ sq[i] > sq[j]})
RECURSIVE SortByDst(_, _)
SortByDst(S, a) == IF S = {} THEN <<>> ELSE LET m == CHOOSE x \in S : \A y \in S : adj[a][x].to <= adj[a][y].to IN <<m>> \o SortByDst(S \ {m}, a)
SeqOfSet(S) == LET RECURSIVE F(_) F(T) == IF T = {} THEN <<>> ELSE LET m == CHOOSE x \in T : \A y \in T : x <= y IN <<m>> \o F(T \ {m}) IN F(S)
ShouldInvert(a) ==
  LET I == 1..Len(adj[a])
      p0 == SeqOfSet({i \in I : adj[a][i].kind = "ring" /\ adj[a][i].to < a})
      p1 == SortByDst({i \in I : adj[a][i].kind = "ring" /\ adj[a][i].to > a}, a)
      p2 == SeqOfSet({i \in I : adj[a][i].kind = "chain"})
  IN Inversions(p0 \o p1 \o p2) % 2 = 1
Flip(c) == IF c = "@" THEN "@@" ELSE IF c = "@@" THEN "@" ELSE c
SymOf(a) == LET at == atoms[a] IN at.sym   \* sym has a placeholder "?" where the chirality goes; see Spell
Chir ==
  /\ pc = "chir"
  /\ atoms' = [a \in 1..Len(atoms) |-> IF atoms[a].chi # "" /\ atoms[a].rf /\ ShouldInvert(a)
                                        THEN [atoms[a] EXCEPT !.chi = Flip(@)] ELSE atoms[a]]
  /\ pc' = "emit" /\ est' = <<>> /\ outp' = <<>> /\ nfrag0' = 0
  /\ UNCHANGED <<hist, adj, pstack, bdepth, rlog, cstart, eof>>

\* ---- emission ----
IdxAlpha == <<"[C]","[Ring1]","[Ring2]","[Branch1]","[=Branch1]","[#Branch1]","[Branch2]","[=Branch2]","[#Branch2]","[O]","[N]","[=N]","[=C]","[#C]","[S]","[P]">>
RECURSIVE IdxSyms(_)
IdxSyms(n) == IF n < 16 THEN <<IdxAlpha[n + 1]>> ELSE IdxSyms(n \div 16) \o <<IdxAlpha[(n % 16) + 1]>>
BC(order, st, show) == IF order = 2 THEN "=" ELSE IF order = 3 THEN "#" ELSE IF show THEN st ELSE ""
\* atom symbol text: sym is a record of pieces [pre, post] around the chirality tag
AtomSym(bchar, a) == "[" \o bchar \o atoms[a].sym.pre \o atoms[a].chi \o atoms[a].sym.post \o "]"
Roots == SelectSeq([i \in 1..Len(atoms) |-> i], LAMBDA i : \A j \in 1..Len(atoms) : ~(\E k \in 1..Len(adj[j]) : adj[j][k].kind = "chain" /\ adj[j][k].to = i))
EStart ==
  /\ pc = "emit" /\ est = <<>>
  /\ IF nfrag0 < Len(Roots)
     THEN /\ est' = << [d |-> <<AtomSym("", Roots[nfrag0 + 1])>>, cur |-> Roots[nfrag0 + 1], i |-> 0, bq |-> [order |-> 0]] >>
          /\ nfrag0' = nfrag0 + 1 /\ pc' = pc
          /\ outp' = IF nfrag0 = 0 THEN outp ELSE Append(outp, ".")
     ELSE pc' = "done" /\ UNCHANGED <<est, nfrag0, outp>>
  /\ UNCHANGED <<hist, atoms, adj, pstack, bdepth, rlog, cstart, eof>>
ETop == est[Len(est)]
EStep ==
  /\ pc = "emit" /\ est # <<>>
  /\ LET f == ETop
         ob == adj[f.cur]
     IN IF f.i < Len(ob)
        THEN LET b == ob[f.i + 1]
                 last == (f.i + 1 = Len(ob))
             IN IF b.kind = "ring"
                THEN IF b.to > f.cur
                     THEN est' = [est EXCEPT ![Len(est)].i = f.i + 1] /\ UNCHANGED outp   \* left end: skip (chain ends if last)
                     ELSE LET rev == CHOOSE k \in 1..Len(adj[b.to]) : adj[b.to][k].kind = "ring" /\ adj[b.to][k].to = f.cur
                              lb == adj[b.to][rev]
                              q == IdxSyms(f.cur - b.to - 1)
                              pre == IF b.order # 1 \/ (lb.st = "" /\ b.st = "") THEN BC(b.order, "", FALSE)
                                     ELSE (IF lb.st = "" THEN "-" ELSE lb.st) \o (IF b.st = "" THEN "-" ELSE b.st)
                              rs == "[" \o pre \o "Ring" \o ToString(Len(q)) \o "]"
                          IN est' = [est EXCEPT ![Len(est)].i = f.i + 1, ![Len(est)].d = @ \o <<rs>> \o q] /\ UNCHANGED outp
                ELSE IF last
                     THEN est' = [est EXCEPT ![Len(est)] = [d |-> f.d \o <<AtomSym(BC(b.order, b.st, TRUE), b.to)>>, cur |-> b.to, i |-> 0, bq |-> f.bq]]
                          /\ UNCHANGED outp
                     ELSE est' = Append([est EXCEPT ![Len(est)].i = f.i + 1],
                                        [d |-> <<AtomSym(BC(b.order, b.st, TRUE), b.to)>>, cur |-> b.to, i |-> 0, bq |-> b])
                          /\ UNCHANGED outp
        ELSE \* chain finished: return to parent (branch) or finish fragment
             IF Len(est) = 1
             THEN est' = <<>> /\ outp' = outp \o f.d
             ELSE LET q == IdxSyms(Len(f.d) - 1)
                      bs == "[" \o BC(f.bq.order, "", FALSE) \o "Branch" \o ToString(Len(q)) \o "]"
                      par == est[Len(est) - 1]
                  IN est' = Append(SubSeq(est, 1, Len(est) - 2), [par EXCEPT !.d = @ \o <<bs>> \o q \o f.d]) /\ UNCHANGED outp
  /\ UNCHANGED <<hist, pc, atoms, adj, pstack, bdepth, rlog, cstart, nfrag0, eof>>

Next == \/ TEof \/ Chir \/ EStart \/ EStep
        \/ \E t \in Alphabet : TAtom(t) \/ TOpen(t) \/ TClose(t) \/ TRing(t) \/ TDot(t)
Spec == Init /\ [][Next]_vars
RECURSIVE Cat(_)
Cat(sq) == IF sq = <<>> THEN "" ELSE sq[1] \o Cat(Tail(sq))
Emit == pc \in {"done", "error"} => PrintT(ToJson([tv |-> [i \in 1..Len(hist) |-> hist[i].txt], pc |-> pc, out |-> Cat(outp)]))
====
