import sys, threading, time
sys.path.insert(0,'/repo')
import selfies as sf
import selfies.grammar_rules as gr

class Sched:
    """Cooperative scheduler: exactly one worker runs at a time; a worker yields at every
    line event inside selfies/; the controller decides who runs next from a schedule."""
    def __init__(self, n, schedule):
        self.sems=[threading.Semaphore(0) for _ in range(n)]
        self.ctl=threading.Semaphore(0)
        self.done=[False]*n; self.steps=[0]*n; self.schedule=schedule
    def tracer(self, tid):
        def local(frame, event, arg):
            if event=='line':
                self.steps[tid]+=1
                self.ctl.release(); self.sems[tid].acquire()   # yield to controller
            return local
        def glob(frame, event, arg):
            if '/selfies/' in frame.f_code.co_filename: return local
            return None
        return glob
    def worker(self, tid, fn, res):
        self.sems[tid].acquire()
        sys.settrace(self.tracer(tid))
        try: res[tid]=fn()
        except Exception as e: res[tid]=('EXC',type(e).__name__)
        finally:
            sys.settrace(None); self.done[tid]=True; self.ctl.release()
    def run(self, fns):
        n=len(fns); res=[None]*n
        ths=[threading.Thread(target=self.worker,args=(i,f,res)) for i,f in enumerate(fns)]
        for t in ths: t.start()
        cur=0; k=0; switches=0
        while not all(self.done):
            # pick: follow schedule = list of (step_count_at_which_to_preempt)
            if self.done[cur]: cur=[i for i in range(n) if not self.done[i]][0]
            elif k<len(self.schedule) and self.steps[cur]>=self.schedule[k]:
                k+=1; cur=(cur+1)%n; switches+=1
                if self.done[cur]: cur=(cur+1)%n
            self.sems[cur].release(); self.ctl.acquire()
        for t in ths: t.join()
        return res, self.steps, switches

inputs=["[Si][=Ge][C][Branch1][C][F][Ring1][Ring1]", "[Ge][Si][N+1][C][Ring1][Ring2]"]
serial=[sf.decoder(x) for x in inputs]
t=time.time(); runs=0; bad=0
# total line steps of thread 0 alone:
gr._PROCESS_ATOM_CACHE.pop("[Si]",None); gr._PROCESS_ATOM_CACHE.pop("[=Ge]",None); gr._PROCESS_ATOM_CACHE.pop("[Ge]",None)
r,steps,_=Sched(2,[]).run([lambda:sf.decoder(inputs[0]), lambda:sf.decoder(inputs[1])])
print(r==serial, steps)
for p in range(0,steps[0],1):
    for k in ("[Si]","[=Ge]","[Ge]"): gr._PROCESS_ATOM_CACHE.pop(k,None)
    r,st,sw=Sched(2,[p]).run([lambda:sf.decoder(inputs[0]), lambda:sf.decoder(inputs[1])])
    runs+=1; bad+= (r!=serial)
print(runs,bad,time.time()-t)
