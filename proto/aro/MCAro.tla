---- MODULE MCAro ----
EXTENDS AroProto
A(txt, b, pre, post, aro, vs, imp, h) == [k |-> "atom", txt |-> b \o txt, b |-> b, sym |-> [pre |-> pre, post |-> post], chi |-> "", aro |-> aro, vs |-> vs, imp |-> imp, h |-> h]
Alpha == { A("c","","C","",TRUE,{4},TRUE,0), A("n","","N","",TRUE,{3},TRUE,0), A("[nH]","","N","H1",TRUE,{3},FALSE,1), A("o","","O","",TRUE,{2},TRUE,0),
  A("C","","C","",FALSE,{4},TRUE,0), A("c","-","C","",TRUE,{4},TRUE,0), A("c",":","C","",TRUE,{4},TRUE,0),
  [k |-> "open", txt |-> "("], [k |-> "close", txt |-> ")"],
  [k |-> "ring", txt |-> "1", lab |-> "1", b |-> ""], [k |-> "ring", txt |-> "2", lab |-> "2", b |-> ""] }
====
