import json, sys, collections
sys.path.insert(0,'/repo')
import selfies as sf
allowed=collections.defaultdict(set)
for line in open(sys.argv[1]):
    if not line.startswith('"{'): continue
    v=json.loads(json.loads(line))
    allowed["".join(v['tv'])].add((v['pc'],v['out']))
st=collections.Counter(); ex=collections.defaultdict(list)
for s,al in allowed.items():
    try: r=('done',sf.encoder(s,strict=False))
    except sf.EncoderError as e: r=('error','')
    except Exception as e: r=('OTHER:'+type(e).__name__,'')
    st['n']+=1; st['multi' if len(al)>1 else 'single']+=1
    if r in al: st['ok_'+r[0]]+=1
    else:
        k=(sorted(a[0] for a in al)[0], r[0]); st['BAD %s->%s'%k]+=1
        if len(ex[k])<6: ex[k].append((s,sorted(al)[:3],r))
print(dict(st))
for k,v in ex.items():
    for e in v: print(k,e)
