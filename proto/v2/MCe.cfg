SPECIFICATION Spec
CONSTANTS MaxLen = 4
  Alphabet <- Alpha
INVARIANT Valence
INVARIANT NoSelf
INVARIANT NoDup
CHECK_DEADLOCK FALSE
INVARIANT Emit
