---- MODULE MCDec ----
EXTENDS DecProto
A(t,o,b,st,c,i) == [k |-> "atom", txt |-> t, out |-> o, b |-> b, st |-> st, cap |-> c, idx |-> i]
R(t,o,n,ls,rs,i) == [k |-> "ring", txt |-> t, t |-> o, n |-> n, idx |-> i, ls |-> ls, rs |-> rs]
Alpha == { A("[C]","C",1,"",4,0), A("[=C]","C",2,"",4,12), A("[/C]","C",1,"/",4,0), A("[\\N]","N",1,"\\",3,0), A("[O]","O",1,"",2,9), A("[F]","F",1,"",1,0),
  [k |-> "branch", txt |-> "[Branch1]", t |-> 1, n |-> 1, idx |-> 3],
  [k |-> "branch", txt |-> "[=Branch1]", t |-> 2, n |-> 1, idx |-> 4],
  R("[Ring1]",1,1,"","",1), R("[=Ring1]",2,1,"","",0), R("[-/Ring1]",1,1,"","/",0), R("[\\/Ring2]",1,2,"\\","/",0),
  [k |-> "dot", txt |-> ".", idx |-> 0],
  [k |-> "bad", txt |-> "[Foo]", idx |-> 0] }
====
