---- MODULE TraceDec ----
EXTENDS DecProto, IOUtils
VARIABLES tid, nbad
TR == JsonDeserialize(IOEnv.TRACE_FILE)
tvars == <<vars, tid, nbad>>
Inp == TR[tid].input
HasNext == Len(hist) < Len(Inp)
Sym == Inp[Len(hist) + 1]
TInit == Init /\ tid = 1 /\ nbad = 0
Feed == /\ tid <= Len(TR) /\ HasNext
        /\ LET s == Sym IN ReadAtom(s) \/ ReadBranch(s) \/ ReadRing(s) \/ ReadEps(s) \/ ReadBad(s) \/ ReadIndex(s) \/ SkipTok(s)
        /\ UNCHANGED <<tid, nbad>>
AtEnd == /\ tid <= Len(TR) /\ ~HasNext /\ (Eof \/ SkipEof) /\ UNCHANGED <<tid, nbad>>
Internal == /\ tid <= Len(TR)
            /\ (PhantomIndex \/ IndexDone \/ Pop \/ FormRing \/ RingsDone \/ WNextRoot \/ WStep)
            /\ UNCHANGED <<tid, nbad>>
EndCall == /\ tid <= Len(TR) /\ pc \in {"done", "error"}
           /\ LET ok == (pc = TR[tid].kind) /\ (pc = "error" \/ out = TR[tid].out)
              IN /\ nbad' = IF ok THEN nbad ELSE nbad + 1
                 /\ (ok \/ PrintT(<<"REJECT", tid, pc, out, TR[tid].out>>))
           /\ tid' = tid + 1
           /\ hist' = <<>> /\ pos' = 0 /\ eof' = FALSE
           /\ stack' = << [state |-> 0, prev |-> 0, end |-> INF] >>
           /\ atoms' = <<>> /\ bonds' = <<>> /\ rings' = <<>>
           /\ pc' = "derive" /\ need' = 0 /\ acc' = 0 /\ pend' = [k |-> "none"] /\ ri' = 1
           /\ wst' = <<>> /\ out' = "" /\ rlog' = <<>> /\ rooti' = 0
TNext == Feed \/ AtEnd \/ Internal \/ EndCall
TSpec == TInit /\ [][TNext]_tvars
Progress == TLCSet(1, tid) /\ TLCSet(2, nbad)
Accepted == TLCGet(1) = Len(TR) + 1 /\ TLCGet(2) = 0
TValence == Valence
====
