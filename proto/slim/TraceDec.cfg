SPECIFICATION TSpec
CONSTANTS MaxLen = 1000000
  Alphabet = {}
CONSTRAINT Progress
INVARIANT TValence
INVARIANT NoSelf
POSTCONDITION Accepted
CHECK_DEADLOCK FALSE
