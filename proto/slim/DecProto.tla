---- MODULE DecProto ----
EXTENDS Integers, Sequences, FiniteSets, TLC, Json
CONSTANTS MaxLen, Alphabet
INF == 1000000
VARIABLES hist, pos, eof, stack, atoms, bonds, rings, pc, need, acc, pend, ri, wst, out, rlog, rooti
vars == <<hist, pos, eof, stack, atoms, bonds, rings, pc, need, acc, pend, ri, wst, out, rlog, rooti>>
wvars == <<wst, out, rlog, rooti>>

Min(a,b) == IF a < b THEN a ELSE b
Max(a,b) == IF a > b THEN a ELSE b
Top == stack[Len(stack)]
SetTop(f) == [stack EXCEPT ![Len(stack)] = f]

Init == /\ hist = <<>> /\ pos = 0 /\ eof = FALSE
        /\ stack = << [state |-> 0, prev |-> 0, end |-> INF] >>
        /\ atoms = <<>> /\ bonds = <<>> /\ rings = <<>>
        /\ pc = "derive" /\ need = 0 /\ acc = 0 /\ pend = [k |-> "none"] /\ ri = 1
        /\ wst = <<>> /\ out = "" /\ rlog = <<>> /\ rooti = 0

BondCount(i) ==
  LET S == {j \in 1..Len(bonds) : bonds[j].src = i \/ bonds[j].dst = i}
      RECURSIVE Sum(_)
      Sum(T) == IF T = {} THEN 0 ELSE LET j == CHOOSE x \in T : TRUE IN bonds[j].order + Sum(T \ {j})
  IN Sum(S)

\* ---- derive ----
Active == pc = "derive" /\ Len(stack) > 0 /\ Top.state # -1 /\ pos < Top.end /\ ~eof

Eof == /\ pc \in {"derive","index"} /\ ~eof /\ Len(stack) > 0
       /\ (pc = "derive" => Top.state # -1 /\ pos < Top.end)
       /\ eof' = TRUE
       /\ UNCHANGED <<hist, pos, stack, atoms, bonds, rings, pc, need, acc, pend, ri, wst, out, rlog, rooti>>

ReadAtom(s) ==
  /\ Active /\ s.k = "atom" /\ Len(hist) < MaxLen
  /\ LET st == Top.state
         bo == IF st = 0 THEN 0 ELSE Min(Min(s.b, st), s.cap)
         left == s.cap - bo
         ns == IF left = 0 THEN -1 ELSE left
     IN /\ hist' = Append(hist, 0) /\ pos' = pos + 1
        /\ IF bo = 0 /\ st # 0
           THEN /\ UNCHANGED <<atoms, bonds>>
                /\ stack' = SetTop([Top EXCEPT !.state = ns])
           ELSE /\ atoms' = Append(atoms, [txt |-> s.txt, out |-> s.out, cap |-> s.cap, root |-> (st = 0)])
                /\ bonds' = IF st = 0 THEN bonds ELSE Append(bonds, [src |-> Top.prev, dst |-> Len(atoms)+1, order |-> bo, ring |-> FALSE, ls |-> s.st, rs |-> ""])
                /\ stack' = SetTop([Top EXCEPT !.state = ns, !.prev = Len(atoms)+1])
  /\ UNCHANGED <<eof, rings, pc, need, acc, pend, ri, wst, out, rlog, rooti>>

ReadBranch(s) ==
  /\ Active /\ s.k = "branch" /\ Len(hist) < MaxLen
  /\ hist' = Append(hist, 0) /\ pos' = pos + 1
  /\ IF Top.state <= 1
     THEN UNCHANGED <<stack, pc, need, acc, pend, wst, out, rlog, rooti>>
     ELSE /\ pc' = "index" /\ need' = s.n /\ acc' = 0 /\ pend' = s
          /\ UNCHANGED stack
  /\ UNCHANGED <<eof, atoms, bonds, rings, ri, wst, out, rlog, rooti>>

ReadRing(s) ==
  /\ Active /\ s.k = "ring" /\ Len(hist) < MaxLen
  /\ hist' = Append(hist, 0) /\ pos' = pos + 1
  /\ IF Top.state = 0
     THEN UNCHANGED <<stack, pc, need, acc, pend, wst, out, rlog, rooti>>
     ELSE /\ pc' = "index" /\ need' = s.n /\ acc' = 0 /\ pend' = s
          /\ UNCHANGED stack
  /\ UNCHANGED <<eof, atoms, bonds, rings, ri, wst, out, rlog, rooti>>

ReadEps(s) ==
  /\ Active /\ s.k = "eps" /\ Len(hist) < MaxLen
  /\ hist' = Append(hist, 0) /\ pos' = pos + 1
  /\ stack' = SetTop([Top EXCEPT !.state = IF Top.state = 0 THEN 0 ELSE -1])
  /\ UNCHANGED <<eof, atoms, bonds, rings, pc, need, acc, pend, ri, wst, out, rlog, rooti>>

ReadBad(s) ==
  /\ Active /\ s.k = "bad" /\ Len(hist) < MaxLen
  /\ hist' = Append(hist, 0) /\ pos' = pos + 1 /\ pc' = "error"
  /\ UNCHANGED <<eof, stack, atoms, bonds, rings, need, acc, pend, ri, wst, out, rlog, rooti>>

\* index symbol read (real symbol) or phantom (after eof)
ReadIndex(s) ==
  /\ pc = "index" /\ need > 0 /\ ~eof /\ Len(hist) < MaxLen
  /\ hist' = Append(hist, 0) /\ pos' = pos + 1
  /\ acc' = acc * 16 + s.idx /\ need' = need - 1
  /\ UNCHANGED <<eof, stack, atoms, bonds, rings, pc, pend, ri, wst, out, rlog, rooti>>
PhantomIndex ==
  /\ pc = "index" /\ need > 0 /\ eof
  /\ pos' = pos + 1 /\ acc' = acc * 16 /\ need' = need - 1
  /\ UNCHANGED <<hist, eof, stack, atoms, bonds, rings, pc, pend, ri, wst, out, rlog, rooti>>
IndexDone ==
  /\ pc = "index" /\ need = 0 /\ pc' = "derive"
  /\ IF pend.k = "branch"
     THEN LET st == Top.state
              bi == Min(st - 1, pend.t)
          IN stack' = Append(SetTop([Top EXCEPT !.state = st - bi]),
                             [state |-> bi, prev |-> Top.prev, end |-> pos + acc + 1])
             /\ UNCHANGED rings
     ELSE LET st == Top.state
              ro == Min(pend.t, st)
              left == st - ro
              l == Max(1, Top.prev - (acc + 1))
          IN /\ stack' = SetTop([Top EXCEPT !.state = IF left = 0 THEN -1 ELSE left])
             /\ rings' = Append(rings, [l |-> l, r |-> Top.prev, order |-> ro, ls |-> pend.ls, rs |-> pend.rs])
  /\ need' = 0 /\ acc' = 0 /\ pend' = [k |-> "none"]
  /\ UNCHANGED <<hist, pos, eof, atoms, bonds, ri, wst, out, rlog, rooti>>

\* frame finished: skip remaining tokens up to end, or pop
SkipTok(s) ==
  /\ pc = "derive" /\ Len(stack) > 0 /\ Top.state = -1 /\ pos < Top.end /\ ~eof /\ Len(hist) < MaxLen
  /\ hist' = Append(hist, 0) /\ pos' = pos + 1
  /\ UNCHANGED <<eof, stack, atoms, bonds, rings, pc, need, acc, pend, ri, wst, out, rlog, rooti>>
SkipEof ==
  /\ pc = "derive" /\ Len(stack) > 0 /\ Top.state = -1 /\ pos < Top.end /\ ~eof
  /\ eof' = TRUE
  /\ UNCHANGED <<hist, pos, stack, atoms, bonds, rings, pc, need, acc, pend, ri, wst, out, rlog, rooti>>
Pop ==
  /\ pc = "derive" /\ Len(stack) > 0
  /\ (eof \/ pos >= Top.end)
  /\ IF Len(stack) = 1 THEN pc' = "rings" /\ stack' = <<>>
     ELSE pc' = pc /\ stack' = SubSeq(stack, 1, Len(stack)-1)
  /\ UNCHANGED <<hist, pos, eof, atoms, bonds, rings, need, acc, pend, ri, wst, out, rlog, rooti>>

HasBond(a,b) == \E j \in 1..Len(bonds) : {bonds[j].src, bonds[j].dst} = {a,b}
FormRing ==
  /\ pc = "rings" /\ ri <= Len(rings)
  /\ LET r == rings[ri]
         lf == atoms[r.l].cap - BondCount(r.l)
         rf == atoms[r.r].cap - BondCount(r.r)
         o == Min(Min(r.order, lf), rf)
     IN IF r.l = r.r \/ lf <= 0 \/ rf <= 0 THEN UNCHANGED bonds
        ELSE IF HasBond(r.l, r.r)
             THEN LET j == CHOOSE j \in 1..Len(bonds) : {bonds[j].src, bonds[j].dst} = {r.l,r.r}
                  IN bonds' = [bonds EXCEPT ![j].order = Min(o + bonds[j].order, 3)]
             ELSE bonds' = Append(bonds, [src |-> r.l, dst |-> r.r, order |-> o, ring |-> TRUE, ls |-> r.ls, rs |-> r.rs])
  /\ ri' = ri + 1
  /\ UNCHANGED <<hist, pos, eof, stack, atoms, rings, pc, need, acc, pend, wst, out, rlog, rooti>>
RingsDone == /\ pc = "rings" /\ ri > Len(rings) /\ pc' = "write"
             /\ UNCHANGED <<hist, pos, eof, stack, atoms, bonds, rings, need, acc, pend, ri, wst, out, rlog, rooti>>


\* ---- writer ----
SelectSeq2(sq, T(_)) == SelectSeq(sq, T)
Idx == 1..Len(bonds)
RECURSIVE FilterIdx(_, _, _)
FilterIdx(j, i, wantRing) ==
  IF j > Len(bonds) THEN <<>>
  ELSE (IF wantRing /\ bonds[j].ring /\ (bonds[j].src = i \/ bonds[j].dst = i) THEN <<j>>
        ELSE IF ~wantRing /\ ~bonds[j].ring /\ bonds[j].src = i THEN <<j>> ELSE <<>>) \o FilterIdx(j+1, i, wantRing)
Adj(i) == FilterIdx(1, i, TRUE) \o FilterIdx(1, i, FALSE)
Roots == SelectSeq([i \in 1..Len(atoms) |-> i], LAMBDA i : atoms[i].root)
BondChar(j, from) == IF bonds[j].order = 2 THEN "=" ELSE IF bonds[j].order = 3 THEN "#"
                     ELSE IF bonds[j].ring THEN (IF from = bonds[j].src THEN bonds[j].ls ELSE bonds[j].rs) ELSE bonds[j].ls
Other(j, i) == IF bonds[j].src = i THEN bonds[j].dst ELSE bonds[j].src
WNextRoot ==
  /\ pc = "write" /\ wst = <<>>
  /\ IF rooti < Len(Roots)
     THEN /\ rooti' = rooti + 1
          /\ wst' = << [a |-> Roots[rooti+1], bi |-> 0, tot |-> Len(Adj(Roots[rooti+1])), cl |-> FALSE] >>
          /\ out' = IF rooti = 0 THEN out ELSE out \o "."
          /\ UNCHANGED <<pc, rlog>>
     ELSE pc' = "done" /\ UNCHANGED <<wst, out, rlog, rooti>>
  /\ UNCHANGED <<hist, pos, eof, stack, atoms, bonds, rings, need, acc, pend, ri>>
WStep ==
  /\ pc = "write" /\ wst # <<>>
  /\ LET top == wst[Len(wst)]
         o1 == IF top.bi = 0 THEN out \o atoms[top.a].out ELSE out
         adj == Adj(top.a)
     IN IF top.bi < top.tot
        THEN LET j == adj[top.bi + 1]
                 w1 == [wst EXCEPT ![Len(wst)].bi = top.bi + 1]
             IN IF bonds[j].ring
                THEN LET known == \E k \in 1..Len(rlog) : rlog[k] = j
                         lab == IF known THEN CHOOSE k \in 1..Len(rlog) : rlog[k] = j ELSE Len(rlog) + 1
                     IN /\ rlog' = IF known THEN rlog ELSE Append(rlog, j)
                        /\ out' = o1 \o BondChar(j, top.a) \o (IF lab >= 10 THEN "%" ELSE "") \o ToString(lab)
                        /\ wst' = w1
                ELSE LET br == top.bi < top.tot - 1
                     IN /\ out' = o1 \o (IF br THEN "(" ELSE "") \o BondChar(j, top.a)
                        /\ wst' = Append(w1, [a |-> bonds[j].dst, bi |-> 0, tot |-> Len(Adj(bonds[j].dst)), cl |-> br])
                        /\ UNCHANGED rlog
        ELSE /\ wst' = SubSeq(wst, 1, Len(wst) - 1)
             /\ out' = IF top.cl THEN o1 \o ")" ELSE o1
             /\ UNCHANGED rlog
  /\ UNCHANGED <<hist, pos, eof, stack, atoms, bonds, rings, pc, need, acc, pend, ri, rooti>>

Next == \/ WNextRoot \/ WStep \/ Eof \/ PhantomIndex \/ IndexDone \/ SkipEof \/ Pop \/ FormRing \/ RingsDone
        \/ \E s \in Alphabet : ReadAtom(s) \/ ReadBranch(s) \/ ReadRing(s) \/ ReadEps(s) \/ ReadBad(s) \/ ReadIndex(s) \/ SkipTok(s)
Spec == Init /\ [][Next]_vars

Valence == \A i \in 1..Len(atoms) : BondCount(i) <= atoms[i].cap
NoSelf == \A j \in 1..Len(bonds) : bonds[j].src # bonds[j].dst
NoDup == \A j, k \in 1..Len(bonds) : j # k => {bonds[j].src, bonds[j].dst} # {bonds[k].src, bonds[k].dst}
Emit == pc \in {"done","error"} => PrintT(ToJson([tv |-> [i \in 1..Len(hist) |-> hist[i].txt], pc |-> pc, out |-> out]))
====
