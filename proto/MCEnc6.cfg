SPECIFICATION Spec
CONSTANTS MaxLen = 6
  Alphabet <- Alpha
INVARIANT Emit
CHECK_DEADLOCK FALSE
