import json, sys, collections
sys.path.insert(0,'/repo')
import selfies as sf
n=0; bad=[]; kinds=collections.Counter(); seen=collections.Counter(); other=collections.Counter()
for line in open(sys.argv[1]):
    if not line.startswith('"{'): continue
    v=json.loads(json.loads(line))
    s="".join(v['tv']); seen[s]+=1
    try: r=('done',sf.encoder(s,strict=False))
    except sf.EncoderError: r=('error','')
    except Exception as e: r=('OTHER:'+type(e).__name__,''); other[type(e).__name__]+=1
    n+=1; kinds[r[0]]+=1
    if r!=(v['pc'],v['out']): bad.append((s,v['pc'],v['out'],r))
print(n,dict(kinds),'mismatch',len(bad),'max terminal/in',max(seen.values()))
cat=collections.Counter((b[1],b[3][0]) for b in bad); print(cat)
shown=collections.Counter()
for b in bad:
    k=(b[1],b[3][0])
    if shown[k]<5: print(b); shown[k]+=1
