SPECIFICATION Spec
CONSTANTS MaxLen = 5
  Alphabet <- Alpha
INVARIANT Emit
CHECK_DEADLOCK FALSE
