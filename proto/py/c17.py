import sys, random, collections
sys.path.insert(0,'/repo')
import selfies as sf
random.seed(11)
al=["[C]","[=C]","[N]","[O]","[S]","[F]","[Branch1]","[=Branch1]","[Branch2]","[Ring1]","[Ring2]","[=Ring1]","[nop]","[C@@H1]","[13C]"]
w=[10,3,3,3,3,1,4,2,1,3,1,1,2,1,1]
st=collections.Counter(); ex=collections.defaultdict(list)
def toks(s): return [t for t in sf.split_selfies(s)]
for it in range(20000):
    nfrag=random.choice([1,1,1,2,3])
    s=".".join("".join(random.choices(al,weights=w,k=random.randint(1,25))) for _ in range(nfrag))
    plain=sf.decoder(s); out,am=sf.decoder(s,attribute=True)
    st['n']+=1
    if out!=plain: st['DIFF']+=1; ex['DIFF'].append(s)
    insyms=[t for t in toks(s) if t not in ("[nop]",".")]
    natoms_out=sum(1 for a in am if a.token and a.token[0] not in "=#/\\-" )
    for a in am:
        tok=a.token; idx=a.index
        if out[idx-len(tok)+1:idx+1]!=tok:
            st['OUTTOK']+=1; ex['OUTTOK' if nfrag==1 else 'OUTTOK_multi'].append((s,out,tok,idx)); break
    for a in am:
        bad=False
        for c in (a.attribution or []):
            if not (0<=c.index<len(insyms)) or insyms[c.index]!=c.token:
                bad=True
        if bad: st['INTOK']+=1; ex['INTOK' if nfrag==1 else 'INTOK_multi'].append((s,out,a)); break
print(dict(st))
for k,v in ex.items(): print(k,len(v)); print('   ',v[0]); 
