# Throw-away independent SMILES reader (proxy for the TLA+ SmilesParser), written from the OpenSMILES grammar.
import re
ORG={"B","C","N","O","S","P","F","Cl","Br","I"}; ARO={"b","c","n","o","s","p"}
BR=re.compile(r"^\[(\d*)([A-Za-z][a-z]?)(@{0,2})(H\d?)?((?:\++|-+|[+-]\d+)?)(?::\d+)?\]$")
class Err(Exception): pass
def read(smi):
    atoms=[]; adj=[]      # adj[i] = list of slots: ('pred',j) not stored; out slots: dict(kind='ring'|'chain', to=j, order, mark)
    pred=[]; bonds={}     # bonds[(a,b)] a<b -> dict(order, marks={a:mark_at_a_end, b:...}, ring=bool)
    i=0; prev=None; stack=[]; ringopen={}; pend=None; n=len(smi)
    def add_atom(el,aro,iso,chi,h,ch,bracket):
        atoms.append(dict(el=el,aro=aro,iso=iso,chi=chi,h=h,ch=ch,br=bracket)); adj.append([]); pred.append(None); return len(atoms)-1
    while i<n:
        c=smi[i]
        if c in "-=#:/\\":
            if pend is not None: raise Err("double bond sym")
            pend=c; i+=1; continue
        if c==".":
            if pend or stack and False: raise Err("bond before dot")
            prev=None; i+=1
            if ringopen: raise Err("ring across dot")
            if stack: raise Err("dot in branch")
            continue
        if c=="(":
            if prev is None or pend: raise Err("bad (")
            stack.append(prev); i+=1; continue
        if c==")":
            if not stack or pend: raise Err("bad )")
            prev=stack.pop(); i+=1; continue
        if c.isdigit() or c=="%":
            if c=="%":
                lab=smi[i+1:i+3]
                if len(lab)!=2 or not lab.isdigit(): raise Err("bad %")
                i+=3
            else: lab=c; i+=1
            if prev is None: raise Err("ring at start")
            if lab in ringopen:
                a,slot,b0=ringopen.pop(lab)
                if a==prev: raise Err("self ring")
                key=(min(a,prev),max(a,prev))
                if key in bonds: raise Err("dup bond")
                syms=[b0,pend]
                def o(x): return {None:None,"-":1,"/":1,"\\":1,"=":2,"#":3,":":1.5}[x]
                os_=[o(x) for x in syms if x is not None]
                if len(set(os_))>1: raise Err("mismatch")
                if os_: order=os_[0]
                else: order=1.5 if atoms[a]['aro'] and atoms[prev]['aro'] else 1
                ma=b0 if b0 in ("/","\\") else None; mb=pend if pend in ("/","\\") else None
                bonds[key]=dict(order=order,marks={a:ma,prev:mb},ring=True)
                adj[a][slot]=dict(kind='ring',to=prev); adj[prev].append(dict(kind='ring',to=a))
            else:
                adj[prev].append(None); ringopen[lab]=(prev,len(adj[prev])-1,pend)
            pend=None; continue
        # atom
        if c=="[":
            j=smi.find("]",i)
            if j<0: raise Err("hanging [")
            m=BR.match(smi[i:j+1])
            if not m: raise Err("bad bracket "+smi[i:j+1])
            iso,el,chi,h,ch=m.groups()
            aro=el in ARO or el in ("se","as","te","si","al")
            if el[0].islower() and not aro: raise Err("bad el")
            el=el.capitalize()
            h=0 if not h else (1 if h=="H" else int(h[1:]))
            if not ch: chg=0
            elif ch[-1].isdigit(): chg=int(ch[1:])*(1 if ch[0]=="+" else -1)
            else: chg=len(ch)*(1 if ch[0]=="+" else -1)
            a=add_atom(el,aro,(int(iso) if iso else None),chi or None,h,chg,True); i=j+1
        else:
            if smi[i:i+2] in ("Cl","Br"): el=smi[i:i+2]; i+=2; aro=False
            elif c in ORG: el=c; i+=1; aro=False
            elif c in ARO: el=c.upper(); i+=1; aro=True
            else: raise Err("bad char "+c)
            a=add_atom(el,aro,None,None,None,0,False)
        if prev is not None:
            order={None:None,"-":1,"/":1,"\\":1,"=":2,"#":3,":":1.5}[pend]
            if order is None: order=1.5 if atoms[prev]['aro'] and atoms[a]['aro'] else 1
            bonds[(prev,a)]=dict(order=order,marks={prev:pend if pend in ("/","\\") else None},ring=False)
            adj[prev].append(dict(kind='chain',to=a)); pred[a]=prev
        elif pend: raise Err("bond at start")
        pend=None; prev=a
    if pend or stack or ringopen: raise Err("unterminated")
    if not atoms: raise Err("empty")
    return dict(atoms=atoms,adj=adj,pred=pred,bonds=bonds)
def nbrs(g,a):
    """written neighbour order: pred, implicit H, then out slots in written order"""
    out=[]
    if g['pred'][a] is not None: out.append(g['pred'][a])
    if g['atoms'][a]['h']==1: out.append(-1)
    out+= [s['to'] for s in g['adj'][a]]
    return out
def sense(g,a):
    nb=nbrs(g,a); inv=sum(1 for i in range(len(nb)) for j in range(i+1,len(nb)) if nb[i]>nb[j])
    return (g['atoms'][a]['chi']=="@") ^ (inv%2==1)
