import sys;sys.path.insert(0,'/repo')
import selfies as sf
probes_d=['[C][=C][#C][N+1][=O][S][=S][F]', '[N+1][Branch1][C][C][Branch1][C][C][Branch1][C][C][C][C]', '[S+1][=C][=C][=C]', '[Si][=Si][#Si][C]', '[O][=C][=C]', '[C][C][C][C][Ring1][Ring2][Ring1][Ring2][Ring1][Ring2]']
probes_e=['C[N+](C)(C)C', 'O=S(=O)(O)O', 'C#C', 'c1ccccc1', 'FC(F)(F)F']
def run(t):
    sf.set_semantic_constraints(t)
    r={}
    for p in probes_d: r['d:'+p]=sf.decoder(p)
    for p in probes_e:
        r['e:'+p]=sf.encoder(p,strict=False)
        try: r['s:'+p]=sf.encoder(p,strict=True)
        except sf.EncoderError: r['s:'+p]='ERR'
    r['alpha']=sorted(sf.get_semantic_robust_alphabet()); r['tab']=sorted(sf.get_semantic_constraints().items())
    return r
