import sys, random, csv, collections
sys.path.insert(0,'/repo'); sys.path.insert(0,'/tmp/proto/py')
import selfies as sf
from reader import read, Err
from rdkit import Chem, RDLogger
RDLogger.DisableLog('rdApp.*')
GROUP={"B":13,"Al":13,"C":14,"Si":14,"N":15,"P":15,"As":15,"O":16,"S":16,"Se":16,"Te":16}
def V(el,ch):
    if el not in GROUP: return None
    g=GROUP[el]+ch    # isoelectronic shift
    heavy = el in ("P","As","S","Se","Te")
    return {13:{3},14:{4},15:({3,5} if heavy else {3}),16:({2,4,6} if heavy else {2})}.get(g)
def classify(g,a):
    at=g['atoms'][a]
    aro=[k for k,b in g['bonds'].items() if a in k and b['order']==1.5]
    if not aro: return None
    used=sum((1 if b['order']==1.5 else b['order']) for k,b in g['bonds'].items() if a in k)
    v=V(at['el'],at['ch'])
    if v is None: return 'unspec'
    if not at['br']:   # implicit H
        if used in v: return 'sat'
        if used<max(v): return 'needs'
        return 'unspec'
    u=used+at['h']
    s,n=(u in v),(u+1 in v)
    if s and not n: return 'sat'
    if n and not s: return 'needs'
    return 'unspec'
def check(s, out, st, ex):
    g1=read(s); g2=read(out)
    for a in range(len(g1['atoms'])):
        c=classify(g1,a)
        if c is None: continue
        st[c]+=1
        nd=sum(1 for k,b in g1['bonds'].items() if a in k and b['order']==1.5 and g2['bonds'][k]['order']==2)
        if c=='needs' and nd!=1: st['BAD_needs']+=1; ex.append(('needs',s,out,a,g1['atoms'][a]))
        if c=='sat' and nd!=0: st['BAD_sat']+=1; ex.append(('sat',s,out,a,g1['atoms'][a]))
if __name__=="__main__":
    random.seed(1)
    path=sys.argv[1]; N=int(sys.argv[2])
    rows=[r['smiles'].strip() for r in csv.DictReader(open(path))]
    random.shuffle(rows); rows=rows[:N]
    c=sf.get_preset_constraints("hypervalent"); c.update({"P":7,"P-1":8,"P+1":6,"?":12}); sf.set_semantic_constraints(c)
    st=collections.Counter(); ex=[]
    for s0 in rows:
        m=Chem.MolFromSmiles(s0)
        if m is None or "*" in s0: continue
        for s in [s0]+[Chem.MolToSmiles(m,doRandom=True,canonical=False) for _ in range(2)]:
            try: read(s)
            except Err: st['reader_rej']+=1; continue
            try: out=sf.decoder(sf.encoder(s))
            except sf.EncoderError: st['enc_err']+=1; ex.append(('ENCERR',s)); continue
            st['n']+=1
            try: check(s,out,st,ex)
            except Exception as e: st['chk_exc']+=1; ex.append(('EXC',s,out,repr(e)))
    print(path.split('/')[-1],dict(st))
    seen=set()
    for e in ex:
        key=(e[0],str(e[-1]))
        if key in seen: continue
        seen.add(key); print('   ',str(e)[:300])
        if len(seen)>12: break
