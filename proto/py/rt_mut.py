import sys; sys.path.insert(0,'/repo')
import importlib; enc=importlib.import_module("selfies.encoder")
orig=enc._should_invert_chirality
mode=sys.argv.pop(1)
if mode=='never': enc._should_invert_chirality=lambda mol,atom: False
elif mode=='nosort':
    def f(mol, atom):
        out_bonds = mol.get_out_dirbonds(atom.index)
        partition = [[], [], []]
        for i, bond in enumerate(out_bonds):
            if not bond.ring_bond: partition[2].append(i)
            elif bond.src < bond.dst: partition[1].append(i)
            else: partition[0].append(i)
        perm = partition[0] + partition[1] + partition[2]
        count = sum(1 for i in range(len(perm)) for j in range(i+1,len(perm)) if perm[i]>perm[j])
        return count % 2 != 0
    enc._should_invert_chirality=f
exec(open('rt.py').read())
