import sys, random, csv, collections
sys.path.insert(0,'/repo'); sys.path.insert(0,'/tmp/proto/py')
import selfies as sf
from reader import read, sense, Err
from rdkit import Chem, RDLogger
RDLogger.DisableLog('rdApp.*')
random.seed(int(sys.argv[2]) if len(sys.argv)>2 else 0)
path=sys.argv[1]; N=int(sys.argv[3]) if len(sys.argv)>3 else 3000
rows=[r['smiles'].strip() for r in csv.DictReader(open(path))]
random.shuffle(rows); rows=rows[:N]
c=sf.get_preset_constraints("hypervalent"); c.update({"P":7,"P-1":8,"P+1":6,"?":12}); sf.set_semantic_constraints(c)
st=collections.Counter(); ex=[]
for s0 in rows:
    m=Chem.MolFromSmiles(s0)
    if m is None or "*" in s0: st['skip']+=1; continue
    spell=[s0]+[Chem.MolToSmiles(m,doRandom=True,canonical=False) for _ in range(3)]
    for s in spell:
        try: g1=read(s)
        except Err as e: st['reader_rej']+=1; ex.append(('READERREJ',s,str(e))); continue
        try: out=sf.decoder(sf.encoder(s))
        except sf.EncoderError as e: st['enc_err']+=1; ex.append(('ENCERR',s)); continue
        try: g2=read(out)
        except Err as e: st['out_rej']+=1; ex.append(('OUTREJ',s,out)); continue
        st['n']+=1
        A1,A2=g1['atoms'],g2['atoms']
        ok=len(A1)==len(A2) and all(a['el']==b['el'] and a['iso']==b['iso'] and a['ch']==b['ch'] for a,b in zip(A1,A2))
        if not ok: st['atoms_bad']+=1; ex.append(('ATOMS',s,out)); continue
        # H: unbracketed -> implicit; compare only when both explicit
        if set(g1['bonds'])!=set(g2['bonds']): st['bonds_bad']+=1; ex.append(('BONDSET',s,out)); continue
        bad=False
        for k,b in g1['bonds'].items():
            if b['order']!=1.5 and b['order']!=g2['bonds'][k]['order']: bad=True
            for end,mk in b['marks'].items():
                if mk is not None or g2['bonds'][k]['marks'].get(end) is not None:
                    if g2['bonds'][k]['marks'].get(end)!=mk: st['mark_bad']+=1; ex.append(('MARK',s,out,k)); 
        if bad: st['order_bad']+=1; ex.append(('ORDER',s,out))
        for a,at in enumerate(A1):
            if at['chi']:
                st['chiral']+=1
                if A2[a]['chi'] is None or sense(g1,a)!=sense(g2,a): st['sense_bad']+=1; ex.append(('SENSE',s,out,a))
print(path.split('/')[-1],dict(st))
for e in ex[:8]: print('   ',e)
