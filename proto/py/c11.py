import sys, random, collections, subprocess, json
sys.path.insert(0,'/repo')
import selfies as sf
from selfies.grammar_rules import get_index_from_selfies, get_selfies_from_index
from selfies.constants import INDEX_ALPHABET
# C16
ok=all(get_index_from_selfies(*get_selfies_from_index(n))==n and len(get_selfies_from_index(n))==(1 if n<16 else 2 if n<256 else 3) for n in range(4096))
print('C16 roundtrip 0..4095',ok, INDEX_ALPHABET[:4], get_selfies_from_index(57))
# C11: random histories; compare final decode/encode with a fresh table set directly
random.seed(5)
tables=[ "default","octet_rule","hypervalent", {"?":8,"C":2,"N+1":1}, {"?":1,"C":4,"O":3,"N+1":5}, {"?":8}, {"?":8,"C":4,"N":3,"S":2,"S+1":6} ]
bad_tables=[{"C":4},{"?":8,"Xx":1},{"?":8,"C":-1},"nonsense",5,{"?":8,"C+":1}]
probes_d=["[C][=C][#C][N+1][=O][S][=S][F]","[N+1][Branch1][C][C][Branch1][C][C][Branch1][C][C][C][C]","[S+1][=C][=C][=C]","[Si][=Si][#Si][C]","[O][=C][=C]","[C][C][C][C][Ring1][Ring2][Ring1][Ring2][Ring1][Ring2]"]
probes_e=["C[N+](C)(C)C","O=S(=O)(O)O","C#C","c1ccccc1","FC(F)(F)F"]
def obs():
    r={}
    for p in probes_d: r['d:'+p]=sf.decoder(p)
    for p in probes_e:
        r['e:'+p]=sf.encoder(p,strict=False)
        try: r['s:'+p]=sf.encoder(p,strict=True)
        except sf.EncoderError: r['s:'+p]='ERR'
    r['alpha']=sorted(sf.get_semantic_robust_alphabet()); r['tab']=sorted(sf.get_semantic_constraints().items())
    return r
# reference observations per table, computed in fresh subprocesses
ref={}
for i,t in enumerate(tables):
    code="import sys,json;sys.path.insert(0,'/repo');sys.path.insert(0,'/tmp/proto/py');import c11ref;print(json.dumps(c11ref.run(%r)))"%(t,)
    ref[i]=None
open('/tmp/proto/py/c11ref.py','w').write("import sys;sys.path.insert(0,'/repo')\nimport selfies as sf\nprobes_d=%r\nprobes_e=%r\ndef run(t):\n    sf.set_semantic_constraints(t)\n    r={}\n    for p in probes_d: r['d:'+p]=sf.decoder(p)\n    for p in probes_e:\n        r['e:'+p]=sf.encoder(p,strict=False)\n        try: r['s:'+p]=sf.encoder(p,strict=True)\n        except sf.EncoderError: r['s:'+p]='ERR'\n    r['alpha']=sorted(sf.get_semantic_robust_alphabet()); r['tab']=sorted(sf.get_semantic_constraints().items())\n    return r\n"%(probes_d,probes_e))
for i,t in enumerate(tables):
    out=subprocess.run(['/venv/bin/python','-c',"import sys,json;sys.path.insert(0,'/tmp/proto/py');import c11ref;print(json.dumps(c11ref.run(%r)))"%(t,)],capture_output=True,text=True)
    ref[i]=json.loads(out.stdout)
def norm(o): return json.loads(json.dumps(o))
bad=collections.Counter(); n=0; held=[]
cur=0
for step in range(6000):
    op=random.choice(['set','set','bad','getmut','alpha_mut','dec','enc','obs','obs'])
    try:
        if op=='set':
            cur=random.randrange(len(tables)); t=tables[cur]
            if isinstance(t,dict):
                d=dict(t); sf.set_semantic_constraints(d); d['C']=0; d['?']=0   # mutate passed dict afterwards
            else: sf.set_semantic_constraints(t)
        elif op=='bad':
            try: sf.set_semantic_constraints(random.choice(bad_tables)); bad['ACCEPTED_BAD']+=1
            except ValueError: pass
        elif op=='getmut':
            g=sf.get_semantic_constraints(); g['C']=0; g['?']=0
            p=sf.get_preset_constraints(random.choice(["default","octet_rule","hypervalent"])); p['C']=0
        elif op=='alpha_mut':
            a=sf.get_semantic_robust_alphabet(); a.add('[junk]'); a.discard('[C]')
        elif op=='dec': sf.decoder(random.choice(probes_d),attribute=random.random()<0.3)
        elif op=='enc':
            try: sf.encoder(random.choice(probes_e),strict=random.random()<0.5,attribute=random.random()<0.3)
            except sf.EncoderError: pass
        else:
            n+=1; o=norm(obs()); r=ref[cur]
            for k in r:
                if o[k]!=r[k]: bad[k.split(':')[0]]+=1
    except Exception as e:
        bad['EXC_'+type(e).__name__]+=1
print('C11/C12 history probe: obs',n,dict(bad))
