import sys, random, csv, collections
sys.path.insert(0,'/repo')
import selfies as sf
from rdkit import Chem, RDLogger
RDLogger.DisableLog('rdApp.*')
random.seed(3)
st=collections.Counter(); ex=[]
c=sf.get_preset_constraints("hypervalent"); c.update({"P":7,"P-1":8,"P+1":6,"?":12}); sf.set_semantic_constraints(c)
for path,N in [('/repo/tests/test_sets/custom_cases.csv',100),('/repo/tests/test_sets/molnet/clintox.csv',1500),('/repo/tests/test_sets/nonfullerene.csv',1500),('/repo/tests/test_sets/molnet/hiv.csv',2000),('/repo/tests/test_sets/qm9.csv',2000)]:
    rows=[r['smiles'].strip() for r in csv.DictReader(open(path))]; random.shuffle(rows)
    for s0 in rows[:N]:
        m=Chem.MolFromSmiles(s0)
        if m is None or '*' in s0: continue
        for s in [s0, Chem.MolToSmiles(m,doRandom=True,canonical=False)]:
            try: e1=sf.encoder(s)
            except sf.EncoderError: st['encerr']+=1; continue
            try: d=sf.decoder(e1)
            except sf.DecoderError as e: st['DECERR']+=1; ex.append(('DECERR',s,e1)); continue
            try: e2=sf.encoder(d)
            except sf.EncoderError: st['REENCERR']+=1; ex.append(('REENC',s,e1,d)); continue
            st['n']+=1
            if e2!=e1: st['NOTFIX']+=1; ex.append(('NOTFIX',s,e1,e2))
print(dict(st))
for e in ex[:10]: print(e)
# random SELFIES -> smiles -> encode -> decode -> encode fixpoint
sf.set_semantic_constraints()
al=sorted(sf.get_semantic_robust_alphabet())+["[C@]","[C@@H1]","[/C]","[\\C]","[-/Ring1]","[\\/Ring1]","[NH1]","[13C]","[O-1]","[N+1]","[=N+1]"]
al=[a for a in al if a not in ("[H]",)]
w=[(8 if a in ("[C]","[=C]","[N]","[O]") else 1) for a in al]
st=collections.Counter(); ex=[]
for i in range(20000):
    s="".join(random.choices(al,weights=w,k=random.randint(1,40)))
    smi=sf.decoder(s)
    if not smi: continue
    try: e1=sf.encoder(smi)
    except sf.EncoderError as e: st['ENCERR']+=1; ex.append(('ENCERR',s,smi)); continue
    d=sf.decoder(e1)
    if d!=smi: st['DEC_NEQ']+=1; ex.append(('DECNEQ',smi,e1,d))
    e2=sf.encoder(d)
    st['n']+=1
    if e2!=e1: st['NOTFIX']+=1; ex.append(('NOTFIX',smi,e1,e2))
print(dict(st))
seen=set()
for e in ex:
    if e[0] in seen and len(seen)>3: continue
    seen.add(e[0]); print(e)
