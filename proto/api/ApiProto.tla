---- MODULE ApiProto ----
EXTENDS Integers, Sequences, FiniteSets, TLC
CONSTANTS MaxObj, Aliased   \* Aliased = TRUE models the code as it is today (getter returns the cached set)
VARIABLES heap, curObj, alphaObj, capCache, refs, lastDecode
vars == <<heap, curObj, alphaObj, capCache, refs, lastDecode>>
Keys == {"C", "N+1", "?"}
Tab(c, n, q) == [C |-> c, Np |-> n, Q |-> q]          \* -2 = key absent
T1 == Tab(4, 4, 8)  T2 == Tab(2, 1, 8)  T3 == Tab(-2, -2, 1)
B1 == Tab(4, -2, -2)       \* missing "?"
B2 == Tab(-1, -2, 8)       \* negative capacity
Valid(t) == t.Q >= 0 /\ t.C # -1 /\ t.Np # -1
Cap(t, k) == LET v == CASE k = "C" -> t.C [] k = "N+1" -> t.Np [] OTHER -> -2 IN IF v = -2 THEN t.Q ELSE v
Alphabet(t) == {<<k, b>> \in {"C", "N+1"} \X (1..3) : Cap(t, k) >= b /\ (IF k = "C" THEN t.C ELSE t.Np) # -2} \cup {<<"idx", 0>>}
ProbeKeys == <<"C", "N+1", "Si">>
Fresh(t) == [i \in 1..3 |-> Cap(t, ProbeKeys[i])]
TObj(t) == [kind |-> "tab", v |-> t]
SObj(s) == [kind |-> "set", v |-> s]
nxt == Len(heap) + 1
Init == /\ heap = <<TObj(T1), TObj(T2), TObj(T1)>>   \* 1,2 = presets; 3 = live table
        /\ curObj = 3 /\ alphaObj = 0 /\ capCache = {} /\ refs = {} /\ lastDecode = Fresh(T1)
Cur == heap[curObj].v
Room(n) == Len(heap) + n <= MaxObj
SetPreset(p) == /\ Room(1) /\ heap' = Append(heap, heap[p]) /\ curObj' = nxt /\ alphaObj' = 0 /\ capCache' = {} /\ UNCHANGED <<refs, lastDecode>>
CallerNew(t) == /\ Room(1) /\ heap' = Append(heap, TObj(t)) /\ refs' = refs \cup {nxt} /\ UNCHANGED <<curObj, alphaObj, capCache, lastDecode>>
SetCustom(o) == /\ o \in refs /\ heap[o].kind = "tab"
                /\ IF Valid(heap[o].v)
                   THEN Room(1) /\ heap' = Append(heap, heap[o]) /\ curObj' = nxt /\ alphaObj' = 0 /\ capCache' = {} /\ UNCHANGED <<refs, lastDecode>>
                   ELSE UNCHANGED vars
GetCur == /\ Room(1) /\ heap' = Append(heap, heap[curObj]) /\ refs' = refs \cup {nxt} /\ UNCHANGED <<curObj, alphaObj, capCache, lastDecode>>
GetPreset(p) == /\ Room(1) /\ heap' = Append(heap, heap[p]) /\ refs' = refs \cup {nxt} /\ UNCHANGED <<curObj, alphaObj, capCache, lastDecode>>
GetAlpha ==
  /\ IF alphaObj = 0
     THEN IF Aliased
          THEN Room(1) /\ heap' = Append(heap, SObj(Alphabet(Cur))) /\ alphaObj' = nxt /\ refs' = refs \cup {nxt}
          ELSE Room(2) /\ heap' = heap \o <<SObj(Alphabet(Cur)), SObj(Alphabet(Cur))>> /\ alphaObj' = nxt /\ refs' = refs \cup {nxt + 1}
     ELSE IF Aliased
          THEN refs' = refs \cup {alphaObj} /\ UNCHANGED <<heap, alphaObj>>
          ELSE Room(1) /\ heap' = Append(heap, heap[alphaObj]) /\ refs' = refs \cup {nxt} /\ UNCHANGED alphaObj
  /\ UNCHANGED <<curObj, capCache, lastDecode>>
Mutate(o) == /\ o \in refs
             /\ heap' = [heap EXCEPT ![o] = IF @.kind = "tab" THEN TObj([@.v EXCEPT !.C = 0, !.Q = 0])
                                            ELSE SObj((@.v \cup {<<"junk", 0>>}) \ {<<"C", 1>>})]
             /\ UNCHANGED <<curObj, alphaObj, capCache, refs, lastDecode>>
Look(k) == IF \E p \in capCache : p[1] = k THEN (CHOOSE p \in capCache : p[1] = k)[2] ELSE Cap(Cur, k)
Decode == /\ capCache' = capCache \cup {<<ProbeKeys[i], Look(ProbeKeys[i])>> : i \in 1..3}
          /\ lastDecode' = [i \in 1..3 |-> Look(ProbeKeys[i])]
          /\ UNCHANGED <<heap, curObj, alphaObj, refs>>
Next == \/ \E p \in {1, 2} : SetPreset(p) \/ GetPreset(p)
        \/ \E t \in {T2, T3, B1, B2} : CallerNew(t)
        \/ \E o \in 1..Len(heap) : SetCustom(o) \/ Mutate(o)
        \/ GetCur \/ GetAlpha \/ Decode
Spec == Init /\ [][Next]_vars
NoAlias == refs \cap ({curObj, 1, 2} \cup (IF alphaObj = 0 THEN {} ELSE {alphaObj})) = {}
PresetsImmutable == heap[1] = TObj(T1) /\ heap[2] = TObj(T2)
CacheCoherent == /\ \A p \in capCache : p[2] = Cap(Cur, p[1])
                 /\ alphaObj # 0 => heap[alphaObj].v = Alphabet(Cur)
DecodeAfterFill == capCache # {} => lastDecode = Fresh(Cur)
CurValid == Valid(Cur)
====
