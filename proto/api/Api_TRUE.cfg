SPECIFICATION Spec
CONSTANTS MaxObj = 8
  Aliased = TRUE
INVARIANT NoAlias
INVARIANT PresetsImmutable
INVARIANT CacheCoherent
INVARIANT CurValid
INVARIANT DecodeAfterFill
CHECK_DEADLOCK FALSE
