SPECIFICATION Spec
CONSTANTS MaxLen = 7
  Alphabet <- Alpha
INVARIANT Valence
INVARIANT NoSelf
INVARIANT NoDup
CHECK_DEADLOCK FALSE
VIEW View
