---- MODULE MCDec ----
EXTENDS DecProto
A(t,o,b,c,i) == [k |-> "atom", txt |-> t, out |-> o, b |-> b, st |-> "", cap |-> c, idx |-> i]
Alpha == { A("[C]","C",1,4,0), A("[=C]","C",2,4,12), A("[#C]","C",3,4,13), A("[O]","O",1,2,9), A("[=N]","N",2,3,11), A("[F]","F",1,1,0), A("[CH4]","[CH4]",1,0,0),
  [k |-> "branch", txt |-> "[Branch1]", t |-> 1, n |-> 1, idx |-> 3],
  [k |-> "branch", txt |-> "[=Branch1]", t |-> 2, n |-> 1, idx |-> 4],
  [k |-> "branch", txt |-> "[#Branch2]", t |-> 3, n |-> 2, idx |-> 8],
  [k |-> "ring", txt |-> "[Ring1]", t |-> 1, n |-> 1, idx |-> 1, ls |-> "", rs |-> ""],
  [k |-> "ring", txt |-> "[=Ring2]", t |-> 2, n |-> 2, idx |-> 0, ls |-> "", rs |-> ""],
  [k |-> "eps", txt |-> "[epsilon]", idx |-> 0],
  [k |-> "bad", txt |-> "[Foo]", idx |-> 0] }
View == <<Len(hist), pos, eof, stack, atoms, bonds, rings, pc, need, acc, pend, ri>>
====
