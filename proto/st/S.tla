---- MODULE S ----
EXTENDS Integers, Sequences, TLC, Json, IOUtils, SequencesExt
ASSUME PrintT(<<Len("abc"), "ab" \o "cd", SubSeq("abcdef", 2, 3)>>)
ASSUME PrintT(ToString(12) \o "x")
ASSUME PrintT(JsonDeserialize("/tmp/proto/st/t.json"))
ASSUME PrintT(IOEnv.HOME)
VARIABLE x
Init == x = 0
Next == x' = x
====
