---- MODULE S2 ----
EXTENDS Integers, Sequences, TLC, Json, IOUtils
J == JsonDeserialize("/tmp/proto/st/t2.json")
Ch(s,i) == SubSeq(s,i,i)
ASSUME PrintT(<<Len(J.a), [i \in 1..Len(J.a) |-> Ch(J.a,i)]>>)
ASSUME PrintT(<<Len(J.u), J.u = "é", Len("é")>>)
ASSUME PrintT(<<Ch(J.a,1) = "~", Ch(J.a,3) = "\\", Ch(J.a, 4) = "\"", J.a \o "]" >>)
ASSUME PrintT(ToJson([x |-> J.a, y |-> "a\\b\"c"]))
ASSUME PrintT(<<"[" \in {"[", "]"}, Ch("[C]", 1) = "[", Ch("abc",4)>>)
VARIABLE x
Init == x = 0
Next == x' = x
====
