INIT Init
NEXT Next
