INIT Init
NEXT Next
